package sim

import (
	"fmt"
	"math/rand"
	"os"
	"sort"
	"strings"
	"sync"
	"testing/synctest"
	"time"

	"github.com/couchbase/gocbcore/v10/memd"

	"verif/journal"
)

// Tape is the single source of every choice of a run: drawn from the seed's PRNG when exploring,
// read back from a replay file otherwise (0 past its end = the most benign choice).
type Tape struct {
	replay    []int
	replaying bool
	pos       int
	rng       *rand.Rand
	w         *World
}

// Draw returns a value in [0,n). weights (optional, len n) bias exploration only.
func (t *Tape) Draw(n int, weights []int) int {
	if n <= 0 {
		panic("tape: draw from empty range")
	}
	var v int
	if t.replaying {
		if t.pos < len(t.replay) {
			v = t.replay[t.pos] % n
			if v < 0 {
				v = -v
			}
		}
		t.pos++
	} else if weights == nil {
		v = t.rng.Intn(n)
	} else {
		tot := 0
		for _, x := range weights {
			tot += x
		}
		if tot <= 0 {
			v = 0
		} else {
			r := t.rng.Intn(tot)
			for i, x := range weights {
				if r < x {
					v = i
					break
				}
				r -= x
			}
		}
	}
	t.w.jl(&journal.Ev{K: "d", Vb: -1, I: int64(v), U: uint64(n)})
	return v
}

func (t *Tape) Bool(pctTrue int) bool {
	return t.Draw(2, []int{100 - pctTrue, pctTrue}) == 1
}

// Pick draws from a list of values; index 0 should be the most benign.
func Pick[T any](t *Tape, vals []T, weights []int) T { return vals[t.Draw(len(vals), weights)] }

// Action is one enabled scheduler decision.
type Action struct {
	ID string
	W  int
	Do func()
}

type World struct {
	mu       sync.Mutex
	jmu      sync.Mutex
	cfg      *Cfg
	jw       *journal.Writer
	tape     *Tape
	cl       *Cluster
	members  []*Member
	epoch    int
	step     int
	t0       time.Time
	wake     chan struct{}
	done     bool
	yields   []*yieldRec
	slowCopy map[[2]int]bool // copies whose persistence advances rarely
	yieldSeq int
	quiet    bool // quiesce phase: no faults, no workload

	scriptSReq func(cn *Conn, vb int, start uint64) (replyVariant, bool)
	scriptFlog func(vb int) []FEntry

	extWrites   map[int]int // per vb external writes so far
	faultsFired map[string]int
	scn         Scenario
	disk        *Disk
}

func (w *World) now() int64 { return int64(time.Since(w.t0)) }

// jl appends an event to the journal (any goroutine).
func (w *World) jl(e *journal.Ev) {
	w.jmu.Lock()
	e.St = w.step
	e.T = w.now()
	w.jw.Write(e)
	w.jmu.Unlock()
}

func (w *World) probe(name string) { w.jl(&journal.Ev{K: journal.KProbe, Vb: -1, S: name}) }
func (w *World) fault(kind, target string) {
	w.faultsFired[kind]++
	w.jl(&journal.Ev{K: journal.KFault, Vb: -1, S: kind, ID: target})
}
func (w *World) note(f string, a ...any) {
	w.jl(&journal.Ev{K: journal.KNote, Vb: -1, S: fmt.Sprintf(f, a...)})
}

// poke wakes the scheduler out of an "advance until something happens" wait.
func (w *World) poke() {
	select {
	case w.wake <- struct{}{}:
	default:
	}
}

func (w *World) drainWake() {
	for {
		select {
		case <-w.wake:
		default:
			return
		}
	}
}

// ---------------------------------------------------------------------------------------------

func (w *World) sortedConns() []*Conn {
	cs := make([]*Conn, 0, len(w.cl.conns))
	for _, c := range w.cl.conns {
		if !c.closed && !c.zombie {
			cs = append(cs, c)
		}
	}
	sort.SliceStable(cs, func(i, j int) bool { return cs[i].id < cs[j].id })
	return cs
}

func (w *World) sortedStreams() []*DStream {
	var ss []*DStream
	for _, c := range w.sortedConns() {
		vbs := make([]int, 0, len(c.streams))
		for vb := range c.streams {
			vbs = append(vbs, vb)
		}
		sort.Ints(vbs)
		for _, vb := range vbs {
			ss = append(ss, c.streams[vb])
		}
	}
	return ss
}

// headBatch returns the answerable requests of a connection: those of its oldest unanswered epoch
// (a real node executes a connection's requests in arrival order; requests that reached it within
// one quiescence epoch have no defined order).
func headBatch(c *Conn) []*Req {
	if len(c.queue) == 0 {
		return nil
	}
	e := c.queue[0].epoch
	var out []*Req
	for _, q := range c.queue {
		if q.epoch == e {
			out = append(out, q)
		}
	}
	sort.SliceStable(out, func(i, j int) bool {
		if out[i].id != out[j].id {
			return out[i].id < out[j].id
		}
		return out[i].arr < out[j].arr
	})
	return out
}

func (c *Conn) remove(q *Req) {
	for i, x := range c.queue {
		if x == q {
			c.queue = append(c.queue[:i], c.queue[i+1:]...)
			return
		}
	}
}

func (w *World) release(q *Req, v replyVariant) {
	w.mu.Lock()
	q.conn.remove(q)
	if v.name != "ok" {
		w.faultsFired["err:"+v.name]++
		w.jl(&journal.Ev{K: journal.KFault, Vb: int(q.pkt.Vbucket), S: "err:" + v.name, ID: q.id})
		if se, ok := w.scn.(*scEnds); ok && v.name == "reopen-fail" {
			w.noteReopenFail(int(q.pkt.Vbucket), se)
		}
	} else if se, ok := w.scn.(*scEnds); ok && q.pkt.Command == memd.CmdDcpStreamReq {
		se.reopenFails[int(q.pkt.Vbucket)] = 0
	}
	if !v.silent {
		w.cl.respond(q, v)
	}
	w.mu.Unlock()
}

// enabled lists every action the scheduler may take now, in canonical order (benign first).
func (w *World) enabled() []Action {
	var acts []Action
	cfg := w.cfg
	w.mu.Lock()
	conns := w.sortedConns()
	// 1. replies
	for _, c := range conns {
		if c.stalled && (!w.quiet || c.silentFor) {
			continue
		}
		for _, q := range headBatch(c) {
			q := q
			wt := cfg.W.Reply
			if ww, ok := w.scn.ReplyWeight(w, q); ok {
				wt = ww
			}
			acts = append(acts, Action{ID: "reply|" + q.id, W: wt, Do: func() { w.release(q, normalReply) }})
			if q.pkt.Command == memd.CmdDcpStreamReq && cfg.W.ReplyBurst > 0 && wt > 0 && !w.quiet {
				// what a real producer does: the success reply and the first messages of the stream leave in one
				// burst, so the client's connection reader sees them back to back, before the goroutine that
				// requested the stream has run again
				acts = append(acts, Action{ID: "replyburst|" + q.id, W: cfg.W.ReplyBurst, Do: func() {
					vb := int(q.pkt.Vbucket)
					cn := q.conn
					w.release(q, normalReply)
					n := 1 + w.tape.Draw(4, nil)
					w.mu.Lock()
					if st := cn.streams[vb]; st != nil {
						w.probe("stream-opened-with-burst")
						for i := 0; i < n && w.cl.canEmit(st); i++ {
							w.cl.emitNext(st, func(k int) int {
								if k <= 1 {
									return 0
								}
								return w.tape.Draw(k, nil)
							})
						}
					}
					w.mu.Unlock()
				}})
			}
		}
	}
	// 1b. cluster-map pushes on the streaming config responses
	for _, sub := range w.cl.cfgSubs {
		sub := sub
		if sub.closed || sub.sentRev == sub.bucket.revKey() || w.cl.deadTags[sub.tag] {
			continue
		}
		acts = append(acts, Action{ID: fmt.Sprintf("cfgpush|%s.n%d", sub.tag, sub.node), W: cfg.W.Reply, Do: func() { w.cl.pushConfig(sub) }})
	}
	// 1c. late stream-ends of streams the client closed
	for i, st := range w.cl.pendingEnds {
		i, st := i, st
		if st.conn.closed || st.conn.zombie {
			continue
		}
		acts = append(acts, Action{ID: "lateend|" + st.sid, W: cfg.W.LateEnd, Do: func() {
			w.mu.Lock()
			w.cl.pendingEnds = append(append([]*DStream{}, w.cl.pendingEnds[:i]...), w.cl.pendingEnds[i+1:]...)
			w.cl.emitEnd(st)
			w.mu.Unlock()
		}})
	}
	// 1d. goroutines parked at armed pre-emption points
	for _, y := range w.yields {
		y := y
		rw := cfg.W.Reply
		if y.site == "consumer.trackoffset" {
			rw = 2 // leave room for a Commit to land inside the acknowledgement
		}
		acts = append(acts, Action{ID: fmt.Sprintf("resume|%s|%d", y.site, y.n), W: rw, Do: func() {
			w.mu.Lock()
			for i, z := range w.yields {
				if z == y {
					w.yields = append(append([]*yieldRec{}, w.yields[:i]...), w.yields[i+1:]...)
					break
				}
			}
			w.mu.Unlock()
			close(y.ch)
		}})
	}
	// 2. DCP emissions
	for _, s := range w.sortedStreams() {
		s := s
		if w.cl.canEmit(s) {
			wt := cfg.W.Emit
			if w.quiet && !cfg.QuiesceEmit {
				wt = 0
			}
			acts = append(acts, Action{ID: "emit|" + s.sid, W: wt, Do: func() {
				w.mu.Lock()
				w.cl.emitNext(s, func(n int) int {
					if n <= 1 {
						return 0
					}
					return w.tape.Draw(n, nil)
				})
				w.mu.Unlock()
			}})
		}
	}
	w.mu.Unlock()
	if w.disk != nil {
		acts = append(acts, w.disk.actions()...)
	}
	// 3. clock. Letting time pass while a request waits for its reply is the "delay" fault: in
	// configurations without delay faults the clock only moves when nothing is waiting.
	pendingReplies := len(acts) > 0 && strings.HasPrefix(acts[0].ID, "reply|")
	advW, advEvW := cfg.W.Advance, cfg.W.AdvEvent
	booting := false
	for _, m := range w.members {
		if m.started && !m.ready && !m.crashed {
			booting = true
		}
	}
	if pendingReplies && (!cfg.DelayFaults || booting && !cfg.BootFaults) || w.scn.HoldClock(w) || len(w.yields) > 0 {
		advW, advEvW = 0, 0 // (a pre-empted goroutine is resumed before any fake time passes: a pre-emption is not a delay)
	}
	if cfg.MaxReplyDelay > 0 && pendingReplies {
		// bounded delay: once some request has waited this long the clock stops until it is answered
		w.mu.Lock()
		for _, c := range conns {
			for _, q := range c.queue {
				if w.now()-q.at > int64(cfg.MaxReplyDelay) {
					advW, advEvW = 0, 0
				}
			}
		}
		w.mu.Unlock()
	}
	acts = append(acts, Action{ID: "adv|event", W: advEvW, Do: func() {
		if pendingReplies && !w.quiet {
			w.fault("delay", "")
		}
		w.advanceUntilEvent(cfg.AdvEventMax)
	}})
	if !w.quiet {
		for _, d := range cfg.Advances {
			d := d
			acts = append(acts, Action{ID: "adv|" + d.String(), W: advW, Do: func() {
				if pendingReplies {
					w.fault("delay", "")
				}
				w.advance(d)
			}})
		}
	}
	// 4. members: consumer, lifecycle
	for _, m := range w.members {
		acts = append(acts, m.actions()...)
	}
	if !w.quiet {
		// 5. workload and faults
		acts = append(acts, w.workloadActions()...)
		w.mu.Lock()
		acts = append(acts, w.faultActions(conns)...)
		w.mu.Unlock()
		acts = append(acts, w.scn.Actions(w)...)
	}
	return acts
}

// advance lets d of fake time pass. Without delay faults the advance ends early when a request reaches
// the node (otherwise a timer firing inside a long advance would have its requests wait for the rest of it).
func (w *World) advance(d time.Duration) {
	if !w.cfg.DelayFaults {
		w.advanceUntilEvent(d)
		return
	}
	time.Sleep(d + 500*time.Microsecond)
}

func (w *World) advanceUntilEvent(max time.Duration) {
	w.drainWake()
	tm := time.NewTimer(max + 500*time.Microsecond)
	select {
	case <-tm.C:
	case <-w.wake:
		tm.Stop()
	}
}

func (w *World) chooseAndRun(acts []Action) {
	// only actions with a positive weight are enabled (a zero weight disables a fault kind for this
	// configuration); the tape addresses the enabled ones, in exploration and in replay alike, so a
	// minimised tape cannot wander into a fault space the configuration had switched off
	var cand []Action
	for _, a := range acts {
		if a.W > 0 {
			cand = append(cand, a)
		}
	}
	if len(cand) == 0 {
		cand = acts
	}
	weights := make([]int, len(cand))
	for i, a := range cand {
		weights[i] = a.W
		if a.W <= 0 {
			weights[i] = 1
		}
	}
	i := w.tape.Draw(len(cand), weights)
	w.jl(&journal.Ev{K: journal.KStep, Vb: -1, ID: cand[i].ID, I: int64(i), U: uint64(len(cand)), U2: randDraws()})
	cand[i].Do()
}

// tick moves the clock by a tiny, step-specific amount after every decision, so that two goroutines
// released by different steps never start their (equal-length) polling sleeps at the same fake instant:
// timers that fall due at exactly the same instant fire in an order the runtime does not define.
func (w *World) tick() {
	synctest.Wait()
	time.Sleep(time.Duration(1009+(w.step*7919)%4001) * time.Nanosecond)
}

// Run is the scheduler loop (bubble root goroutine).
func (w *World) Run() {
	cfg := w.cfg
	for w.step = 1; w.step <= cfg.MaxSteps && !w.done; w.step++ {
		synctest.Wait()
		w.mu.Lock()
		w.epoch++
		w.mu.Unlock()
		w.scn.BeforeStep(w)
		if w.done {
			break
		}
		acts := w.enabled()
		w.chooseAndRun(acts)
		w.tick()
	}
	synctest.Wait()
	w.quiesce()
	w.jl(&journal.Ev{K: journal.KEnd, Vb: -1, S: "done"})
}

// quiesce: faults and workload stop, pending things are answered normally in canonical order, the
// clock runs through the scenario's budget; liveness/convergence oracles read what happens here.
func (w *World) quiesce() {
	w.quiet = true
	w.jl(&journal.Ev{K: journal.KQuiesce, Vb: -1})
	w.mu.Lock()
	for _, c := range w.cl.conns {
		if !c.silentFor {
			c.stalled = false
		}
	}
	for n := range w.cl.silentNodes {
		delete(w.cl.silentNodes, n)
	}
	w.mu.Unlock()
	w.scn.OnQuiesce(w)
	deadline := w.now() + int64(w.cfg.QuiesceBudget)
	for i := 0; i < w.cfg.QuiesceMaxSteps && !w.done; i++ {
		w.step++
		synctest.Wait()
		w.mu.Lock()
		w.epoch++
		w.mu.Unlock()
		if w.cfg.RM {
			w.persistAll() // no fault, no lag: whatever was written meanwhile (the library's own documents) is persisted everywhere
		}
		acts := w.enabled()
		// deterministic drain: first action with positive weight that is not a pure clock advance;
		// otherwise advance the clock until the next event, until the budget is used up.
		picked := -1
		for i, a := range acts {
			if a.W > 0 && a.ID != "adv|event" {
				picked = i
				break
			}
		}
		if picked < 0 {
			if w.now() >= deadline {
				break
			}
			rem := time.Duration(deadline - w.now())
			w.jl(&journal.Ev{K: journal.KStep, Vb: -1, ID: "q|adv", U: uint64(len(acts)), U2: randDraws()})
			if rem > w.cfg.AdvEventMax {
				rem = w.cfg.AdvEventMax
			}
			w.advanceUntilEvent(rem)
			continue
		}
		w.jl(&journal.Ev{K: journal.KStep, Vb: -1, ID: "q|" + acts[picked].ID, I: int64(picked), U: uint64(len(acts)), U2: randDraws()})
		acts[picked].Do()
		w.tick()
	}
	synctest.Wait()
	w.scn.AfterQuiesce(w)
	synctest.Wait()
}

// ---------------------------------------------------------------------------------------------
// workload: external writes to the source bucket

var keyClasses = []string{"plain", "plain2", "conn", "txn", "partial", "empty", "binary", "big", "embedded"}

func (w *World) makeKey(class string, vb, n int) []byte {
	switch class {
	case "conn":
		return []byte(fmt.Sprintf("_connector:cbgo:other:checkpoint:%d-%d", vb, n))
	case "txn":
		return []byte(fmt.Sprintf("_txn:atr-%d-%d", vb, n))
	case "partial":
		return []byte(fmt.Sprintf("_connector:cbg-%d-%d", vb, n))
	case "empty":
		return []byte{}
	case "binary":
		return []byte{0xff, 0x00, byte(vb), byte(n), 0x80}
	case "plain2":
		return []byte(fmt.Sprintf("_txnx-%d-%d", vb, n))
	case "embedded": // a reserved prefix somewhere inside an ordinary key
		if n%2 == 0 {
			return []byte(fmt.Sprintf("order_txn:%d-%d", vb, n))
		}
		return []byte(fmt.Sprintf("audit:_connector:cbgo:grp:checkpoint:%d-%d", vb, n))
	}
	return []byte(fmt.Sprintf("k-%d-%d", vb, n))
}

func (w *World) workloadActions() []Action {
	cfg := w.cfg
	var acts []Action
	if cfg.W.ExtWrite == 0 {
		return nil
	}
	b := w.cl.buckets[cfg.Bucket]
	for vb := 0; vb < cfg.NVb; vb++ {
		vb := vb
		if w.extWrites[vb] >= cfg.MaxItems || b.vbs[vb].high > 1<<64-64 {
			continue // (a vBucket whose history is already at the top of the seqno range takes no more writes)
		}
		acts = append(acts, Action{ID: fmt.Sprintf("write|vb%d", vb), W: cfg.W.ExtWrite, Do: func() {
			w.extWrites[vb]++
			it := w.genItem(vb)
			w.mu.Lock()
			w.cl.extWrite(b, vb, it)
			w.mu.Unlock()
		}})
	}
	return acts
}

// genItem draws one external write.
func (w *World) genItem(vb int) Item {
	cfg := w.cfg
	t := w.tape
	n := w.extWrites[vb]
	kind := Pick(t, cfg.ItemKinds, cfg.ItemKindW)
	it := Item{Kind: kind, Rev: uint64(1 + t.Draw(3, nil))}
	switch kind {
	case "mut", "del", "exp":
		class := Pick(t, cfg.KeyClasses, cfg.KeyClassW)
		it.Key = w.makeKey(class, vb, n)
		if len(cfg.Collections) > 0 {
			it.Coll = Pick(t, cfg.Collections, nil)
		}
		if kind == "mut" {
			switch t.Draw(4, []int{6, 1, 1, 1}) {
			case 0:
				it.Val = []byte(fmt.Sprintf(`{"n":%d,"vb":%d}`, n, vb))
				it.Datatype = uint8(memd.DatatypeFlagJSON)
			case 1:
				it.Val = []byte{}
			case 2:
				it.Val = []byte{0x00, 0xff, 0xfe, byte(n)}
			case 3:
				it.Val = make([]byte, 3000)
				for i := range it.Val {
					it.Val[i] = byte(i * 7)
				}
			}
			it.Flags = uint32(t.Draw(3, nil)) * 0x2000001
			it.Expiry = uint32(t.Draw(2, nil)) * 1893456000
		}
		if cfg.CasMode != "" {
			it.Cas = w.genCas()
		}
	default: // system events
		codes := map[string]uint32{"sys:collcreate": 0, "sys:colldelete": 1, "sys:collflush": 2, "sys:scopecreate": 3, "sys:scopedelete": 4, "sys:collchanged": 5}
		it.EvCode = codes[kind]
		it.Coll = uint32(8 + t.Draw(4, nil))
		it.ScopeID = uint32(8 + t.Draw(2, nil))
		it.Manifest = uint64(n + 1)
		it.Key = []byte(fmt.Sprintf("c%d", it.Coll))
	}
	return it
}

// genCas draws CAS values around the skipUntil boundary (cfg.SkipUntilSec) to the nanosecond.
func (w *World) genCas() uint64 {
	base := uint64(w.cfg.SkipUntilSec) * 1_000_000_000
	offs := []int64{-2_000_000_000, -1_000_000_001, -1_000_000_000, -1, 0, 1, 999_999_999, 1_000_000_000, 5_000_000_000}
	o := offs[w.tape.Draw(len(offs), nil)]
	return uint64(int64(base) + o)
}

// ---------------------------------------------------------------------------------------------
// generic faults

func (w *World) faultActions(conns []*Conn) []Action {
	cfg := w.cfg
	var acts []Action
	if cfg.W.ReplyErr > 0 {
		for _, c := range conns {
			if c.stalled {
				continue
			}
			for _, q := range headBatch(c) {
				q := q
				for _, v := range w.scn.ErrVariants(w, q) {
					v := v
					acts = append(acts, Action{ID: "replyerr|" + v.name + "|" + q.id, W: cfg.W.ReplyErr, Do: func() { w.release(q, v) }})
				}
			}
		}
	}
	if cfg.W.Stall > 0 {
		for _, c := range conns {
			c := c
			if !w.scn.MayStall(w, c) {
				continue
			}
			if !c.stalled {
				if len(c.queue) == 0 {
					continue // a fault while idle tests nothing
				}
				acts = append(acts, Action{ID: "stall|" + c.id, W: cfg.W.Stall, Do: func() {
					w.mu.Lock()
					c.stalled = true
					w.mu.Unlock()
					w.fault("stall", c.id)
				}})
			} else {
				acts = append(acts, Action{ID: "unstall|" + c.id, W: cfg.W.Stall * 2, Do: func() {
					w.mu.Lock()
					c.stalled = false
					w.mu.Unlock()
				}})
			}
		}
	}
	if cfg.W.ConnDrop > 0 {
		for _, c := range conns {
			c := c
			if !w.scn.MayDrop(w, c) {
				continue
			}
			acts = append(acts, Action{ID: "drop|" + c.id, W: cfg.W.ConnDrop, Do: func() {
				w.mu.Lock()
				if se, ok := w.scn.(*scEnds); ok {
					for _, q := range c.queue {
						if q.pkt.Command == memd.CmdDcpStreamReq {
							w.noteReopenFail(int(q.pkt.Vbucket), se) // the request dies with the connection: one failed attempt
						}
					}
				}
				w.cl.dropConn(c)
				w.mu.Unlock()
				w.fault("conndrop", c.id)
			}})
		}
	}
	return acts
}

func fatalf(f string, a ...any) {
	fmt.Fprintf(os.Stderr, "SIMHARNESS: "+f+"\n", a...)
	os.Exit(3)
}

// randDraws: how many values the bubble's goroutines have drawn from the runtime's simulator-owned
// stream (select order, map iteration offsets) so far; journalled per step to localise a divergence.
var randDrawsFn func() uint64

func randDraws() uint64 {
	if randDrawsFn == nil {
		return 0
	}
	return randDrawsFn()
}

// yieldRec is one goroutine parked at a pre-emption point (see tools/instrument yieldSites).
type yieldRec struct {
	site string
	n    int
	ch   chan struct{}
}

// yieldHook is installed as vsync.YieldHook: sites armed for this run park the goroutine until the
// scheduler picks its "resume" action; in the quiesce phase nothing parks any more.
func (w *World) yieldHook(site string) {
	w.mu.Lock()
	if !w.cfg.YieldSites[site] || w.quiet {
		w.mu.Unlock()
		return
	}
	w.yieldSeq++
	y := &yieldRec{site: site, n: w.yieldSeq, ch: make(chan struct{})}
	w.yields = append(w.yields, y)
	w.mu.Unlock()
	w.jl(&journal.Ev{K: journal.KProbe, Vb: -1, S: "parked-at:" + site})
	w.poke()
	<-y.ch
}
