//go:build verif

package api

import "github.com/gofiber/fiber/v2"

// VerifApp exposes the fiber app for in-memory requests (app.Test), no TCP listener.
func VerifApp(a API) *fiber.App { return a.(*api).app }
