package sim

import (
	"bufio"
	"fmt"
	"net"
	"net/http"
	"strings"
	"time"

	"verif/journal"
)

// netConn adapts an in-memory pipe end to net.Conn (deadlines are no-ops: the bubble clock and the
// callers' own timers decide about time).
type netConn struct {
	*pipeEnd
	addr string
}

type simAddr string

func (a simAddr) Network() string { return "sim" }
func (a simAddr) String() string  { return string(a) }

func (c *netConn) LocalAddr() net.Addr                { return simAddr("client") }
func (c *netConn) RemoteAddr() net.Addr               { return simAddr(c.addr) }
func (c *netConn) SetDeadline(t time.Time) error      { return nil }
func (c *netConn) SetReadDeadline(t time.Time) error  { return nil }
func (c *netConn) SetWriteDeadline(t time.Time) error { return nil }

// httpDial serves the node's mgmt endpoint (ns_server): only what gocbcore's mgmt ping needs.
// mgmtMode: "ok" answers at once; "hold" parks the request until the scheduler releases it; "silent" never answers.
func (c *Cluster) httpDial(network, addr string) (net.Conn, error) {
	tag, node, ok := parseAddr(addr)
	if !ok {
		return nil, fmt.Errorf("sim: no route to %s", addr)
	}
	c.w.mu.Lock()
	dead := c.deadTags[tag]
	c.w.mu.Unlock()
	if dead {
		return nil, fmt.Errorf("sim: connection refused (%s)", addr)
	}
	cl, sv := newPipe()
	m, _ := memberOfTag(tag)
	go func() {
		br := bufio.NewReader(sv)
		for {
			req, err := http.ReadRequest(br)
			if err != nil {
				return
			}
			c.w.mu.Lock()
			mode := c.mgmtMode
			silent := c.silentNodes[node]
			c.w.mu.Unlock()
			if strings.HasPrefix(req.URL.Path, "/pools/default/bs/") {
				// The streaming bucket-config endpoint: the DCP agent (which has no CCCP poller in go-dcp's
				// configuration) learns cluster-map changes here. The response stays open; each revision is one
				// chunk, pushed when the scheduler says so (action "cfgpush").
				bname := strings.TrimPrefix(req.URL.Path, "/pools/default/bs/")
				c.w.mu.Lock()
				b := c.buckets[bname]
				c.w.mu.Unlock()
				if b == nil {
					_, _ = fmt.Fprintf(sv, "HTTP/1.1 404 Not Found\r\nContent-Length: 0\r\n\r\n")
					continue
				}
				_, _ = fmt.Fprintf(sv, "HTTP/1.1 200 OK\r\nContent-Type: application/json\r\nTransfer-Encoding: chunked\r\n\r\n")
				sub := &cfgSub{tag: tag, node: node, member: m, bucket: b, w: sv, sentRev: -1}
				c.w.mu.Lock()
				c.cfgSubs = append(c.cfgSubs, sub)
				c.w.mu.Unlock()
				c.w.poke()
				_, _ = br.Peek(1) // blocks until the client closes the connection
				c.w.mu.Lock()
				sub.closed = true
				c.w.mu.Unlock()
				return
			}
			if req.URL.Path != "/" {
				continue // other mgmt endpoints are not modelled: the request times out
			}
			c.w.jl(&journal.Ev{K: journal.KReq, M: m, Vb: -1, S: "HTTP " + req.Method + " " + req.URL.Path, S2: "mgmt", ID: fmt.Sprintf("%s.n%d|http", tag, node)})
			if mode == "silent" || silent {
				continue
			}
			if mode == "hold" {
				c.w.mu.Lock()
				c.mgmtHeld++
				c.w.mu.Unlock()
				c.w.poke()
				<-c.mgmtRelease
			}
			status := "200 OK"
			if mode == "error" {
				status = "500 Internal Server Error"
			}
			rs := "ok"
			if mode == "error" {
				rs = "0x500"
			}
			c.w.jl(&journal.Ev{K: journal.KRsp, M: m, Vb: -1, S: "HTTP " + req.Method + " " + req.URL.Path, S2: rs, ID: fmt.Sprintf("%s.n%d|http", tag, node)})
			_, _ = fmt.Fprintf(sv, "HTTP/1.1 %s\r\nContent-Length: 2\r\nContent-Type: application/json\r\n\r\n{}", status)
		}
	}()
	return &netConn{pipeEnd: cl, addr: addr}, nil
}

// cfgSub is one open streaming-config response.
type cfgSub struct {
	tag     string
	node    int
	member  int
	bucket  *Bucket
	w       *pipeEnd
	sentRev int64
	closed  bool
}

// pushConfig sends the bucket's current cluster map on the streaming response.
func (c *Cluster) pushConfig(s *cfgSub) {
	c.w.mu.Lock()
	body := append(c.configJSON(s.tag, s.bucket), []byte("\n\n\n\n")...)
	s.sentRev = s.bucket.revKey()
	rev := s.bucket.revKey()
	c.w.mu.Unlock()
	c.w.jl(&journal.Ev{K: journal.KNote, M: s.member, Vb: -1, S: "config-sent", S2: "http", I: rev, ID: fmt.Sprintf("%s.n%d|http", s.tag, s.node)})
	_, _ = fmt.Fprintf(s.w, "%x\r\n%s\r\n", len(body), body)
}
