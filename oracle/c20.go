package oracle

import (
	"crypto/sha256"
	"encoding/hex"
	"fmt"
	"sort"
	"strings"

	"verif/journal"
)

// C20 — no Couchbase call made by the library can hang or invent an outcome.
//
// Reference model, per wrapper call (call/ret events carry the wrapper's deadline):
//
//	R1  it returns within deadline + eps of being called, whatever the node does;
//	R2  it reports success only if, at the moment it returned, every request it had sent had been answered
//	    by the node and the last answer per (command, key, vBucket) was a success; a call whose scripted
//	    request was answered with an error status, after the deadline, or never, reports an error;
//	R3  what it returns on success is the node's payload;
//	R4  after it returned it sends nothing more;
//	R5  a completion that arrives after the return does not kill the process.
func init() { checkers["C20"] = checkC20 }

const c20Eps = int64(150_000_000)

func h6(b []byte) string {
	h := sha256.Sum256(b)
	return hex.EncodeToString(h[:6])
}

type c20Req struct {
	cmd, key string
	vb       int
	arrN     int
	t        int64
	status   string
	rspT     int64
	rspN     int
	answered bool
}

func checkC20(run *Run, res *Result) {
	type call struct {
		name, id, behaviour string
		t, deadline         int64
		n                   int
		ret                 *journal.Ev
		reqs                []*c20Req
	}
	var calls []*call
	var cur *call
	reqByID := map[string]*c20Req{}
	lastRead := map[string][]byte{}
	var lastFlog []uint64
	seqnos := map[uint64]uint64{}
	var endT int64
	targetID := ""
	var afterRet *call
	opCmd := func(cmd string) bool {
		switch cmd {
		case "CMD_GETCLUSTERCONFIG", "CMD_HELLO", "CMD_SASLLISTMECHS", "CMD_SASLAUTH", "CMD_SASLSTEP", "CMD_SELECTBUCKET", "CMD_GETERRORMAP",
			"CMD_COLLECTIONSGETMANIFEST", "CMD_DCPOPENCONNECTION", "CMD_DCPCONTROL", "CMD_DCPNOOP", "CMD_NOOP":
			return false
		}
		return true
	}
	lateStreamReported := false
	for i := range run.Evs {
		e := &run.Evs[i]
		if e.T > endT {
			endT = e.T
		}
		switch e.K {
		case journal.KCall:
			if !strings.HasPrefix(e.S, "op:") {
				continue
			}
			cur = &call{name: strings.TrimPrefix(e.S, "op:"), id: e.ID, behaviour: e.S2, t: e.T, deadline: e.I, n: e.N}
			calls = append(calls, cur)
			afterRet = nil
			seqnos = map[uint64]uint64{}
		case journal.KReq:
			if !opCmd(e.S) {
				continue
			}
			q := &c20Req{cmd: e.S, key: string(e.Key), vb: e.Vb, arrN: e.N, t: e.T}
			reqByID[e.ID] = q
			if cur != nil && cur.ret == nil {
				cur.reqs = append(cur.reqs, q)
			} else if afterRet != nil && afterRet.behaviour != "" && e.S2 != "d" {
				res.violate("C20", "R4-request-after-return", e.N, "plain", "%s returned (event #%d) and %s later the library sent %s for key %q: the operation was not finished when it returned",
					afterRet.name, afterRet.ret.N, fmtDur(e.T-afterRet.ret.T), e.S, keyStr(e.Key))
			}
		case journal.KRsp:
			if q := reqByID[e.ID]; q != nil {
				q.answered, q.status, q.rspT, q.rspN = true, e.S2, e.T, e.N
			}
		case journal.KKVR:
			lastRead[string(e.Key)] = e.Raw
		case journal.KFlog:
			lastFlog = e.L
		case journal.KSeqnos:
			for j := 0; j+1 < len(e.L); j += 2 {
				seqnos[e.L[j]] = e.L[j+1]
			}
		case journal.KNote:
			if e.S == "target-request" {
				targetID = e.ID
			}
			if e.S == "op-stream-event-at-listener" {
				// only when the wrapper had returned while its request was still unanswered: then the request was pending at
				// the deadline and had to be cancelled (a completion processed before the waiter ran is just a late success
				// reported as an error, which the property allows)
				pendingAtReturn := false
				if afterRet != nil && afterRet.ret != nil {
					for _, q := range afterRet.reqs {
						if q.cmd == "CMD_DCPSTREAMREQ" && (!q.answered || q.rspN > afterRet.ret.N) {
							pendingAtReturn = true
						}
					}
				}
				if afterRet != nil && afterRet.name == "OpenStream" && afterRet.ret != nil && !strings.HasPrefix(afterRet.ret.S2, "ok:") && pendingAtReturn {
					if !lateStreamReported {
						lateStreamReported = true
						res.violate("C20", "R4-completion-processed-after-failure", e.N, "plain",
							"OpenStream (%s) had returned %q (event #%d), yet the stream is live on the client: an event the node sent on it afterwards reached the listener - the pending request was not cancelled and its late completion was processed as a success", afterRet.behaviour, afterRet.ret.S2, afterRet.ret.N)
					}
				} else {
					res.probe("stream-event-after-successful-open")
				}
			}
		case journal.KRet:
			if !strings.HasPrefix(e.S, "op:") || cur == nil || cur.id != e.ID {
				continue
			}
			cur.ret = e
			afterRet = cur
			c := cur
			took := e.T - c.t
			ok := strings.HasPrefix(e.S2, "ok:")
			payload := strings.TrimPrefix(e.S2, "ok:")
			out := "err"
			if ok {
				out = "ok"
			}
			if c.behaviour != "" {
				res.probe("op:" + c.name + ":" + c.behaviour + ":" + out)
				res.probe("behaviour:" + c.behaviour)
				res.probe("wrapper:" + c.name)
			}
			if took > c.deadline+c20Eps {
				res.violate("C20", "R1-returned-after-deadline", e.N, "plain", "%s (%s) returned %s after the call; its deadline is %s", c.name, c.behaviour, fmtDur(took), fmtDur(c.deadline))
			}
			if ok {
				// every request answered, last answer per (cmd,key,vb) successful
				last := map[string]*c20Req{}
				for _, q := range c.reqs {
					last[fmt.Sprintf("%s|%s|%d", q.cmd, q.key, q.vb)] = q
				}
				var keys []string
				for k := range last {
					keys = append(keys, k)
				}
				sort.Strings(keys)
				for _, k := range keys {
					q := last[k]
					switch {
					case !q.answered:
						res.violate("C20", "R2-success-without-confirmation", e.N, "plain", "%s (%s) reported success although its request %s (event #%d) had not been answered by the node", c.name, c.behaviour, k, q.arrN)
					case !c20Success(c.name, q.status):
						res.violate("C20", "R2-success-despite-error", e.N, "plain", "%s (%s) reported success although the node answered %s with status %s", c.name, c.behaviour, k, q.status)
					}
				}
				if len(c.reqs) == 0 && c.name != "Ping" {
					res.violate("C20", "R2-success-without-request", e.N, "plain", "%s reported success without having sent anything to the node", c.name)
				}
				// payload
				switch c.name {
				case "Get", "GetXattrs":
					for _, q := range c.reqs {
						want, seen := lastRead[q.key]
						if seen && h6(want) != payload {
							res.violate("C20", "R3-wrong-payload", e.N, "plain", "%s returned a value with digest %s, the node sent digest %s", c.name, payload, h6(want))
						}
					}
				case "GetFailOverLogs":
					var parts []string
					for j := 0; j+1 < len(lastFlog); j += 2 {
						parts = append(parts, fmt.Sprintf("{%d %d}", lastFlog[j], lastFlog[j+1]))
					}
					if want := "[" + strings.Join(parts, " ") + "]"; want != payload {
						res.violate("C20", "R3-wrong-payload", e.N, "plain", "GetFailOverLogs returned %s, the node sent %s", payload, want)
					}
				case "GetVBucketSeqNos":
					var parts []string
					for vb, sq := range seqnos {
						parts = append(parts, fmt.Sprintf("%d=%d", vb, sq))
					}
					sort.Strings(parts)
					if want := fmt.Sprint(parts); want != payload {
						res.violate("C20", "R3-wrong-payload", e.N, "plain", "GetVBucketSeqNos returned %s, the nodes sent %s", payload, want)
					}
				case "GetCollectionIDs":
					if payload != "map[8:c1]" {
						res.violate("C20", "R3-wrong-payload", e.N, "plain", "GetCollectionIDs returned %s, the node sent id 8 for c1", payload)
					}
				}
			}
			// scripted request decides the outcome
			if tq := reqByID[targetID]; tq != nil && c.behaviour != "" && c.behaviour != "prompt" {
				switch c.behaviour {
				case "error", "after-deadline", "never":
					if ok {
						res.violate("C20", "R2-invented-success", e.N, "plain", "%s reported success although the node's behaviour for its request (event #%d) was %q", c.name, tq.arrN, c.behaviour)
					}
				case "before-deadline":
					if !ok {
						res.probe("before-deadline-but-error:" + c.name)
					}
				}
			}
		case journal.KEnd:
		}
	}
	for _, c := range calls {
		if c.ret != nil {
			continue
		}
		if res.DeathKind == "expected" || res.DeathKind == "library-failstop" {
			// MetaLoad reports a failed read by terminating the process; it must still do so in time
			if endT-c.t > c.deadline+c20Eps {
				res.violate("C20", "R1-returned-after-deadline", c.n, "plain", "%s (%s) terminated the process %s after the call; its deadline is %s", c.name, c.behaviour, fmtDur(endT-c.t), fmtDur(c.deadline))
			}
			res.probe("op:" + c.name + ":" + c.behaviour + ":failstop")
			res.probe("behaviour:" + c.behaviour)
			res.probe("wrapper:" + c.name)
			continue
		}
		if endT-c.t > c.deadline+c20Eps {
			res.violate("C20", "R1-hang", c.n, "plain", "%s (%s) had not returned %s after the call; its deadline is %s", c.name, c.behaviour, fmtDur(endT-c.t), fmtDur(c.deadline))
		}
	}
	if res.DeathKind == "runtime-panic" || (res.DeathKind == "library-failstop") {
		res.violate("C20", "R5-process-died", len(run.Evs), "plain", "the process died: %s", res.FailStop)
	}
}

func c20Success(op, status string) bool {
	switch status {
	case "ok", "success", "SUCCESS":
		return true
	}
	return false
}
