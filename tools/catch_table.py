#!/usr/bin/env python3
"""Print the markdown table of DESIGN.md 14.6 from seeded/<id>/{meta.json,result.txt}."""
import json, glob, os, re
rows=[]; caught=0; total=0; missed=[]
for d in sorted(glob.glob('/verif/seeded/*/')):
    sid=os.path.basename(d.rstrip('/'))
    m=json.load(open(d+'meta.json'))
    need=(m.get('needs_to_manifest') or '').replace('|','/')
    need=need.split(':')[0] if len(need)>120 and ':' in need[:120] else need
    if len(need)>120: need=need[:117]+'...'
    res=open(d+'result.txt').read() if os.path.exists(d+'result.txt') else ''
    own=m['property']
    rules=set()
    for l in res.splitlines():
        mm=re.match(r'detect: (C\d+) CAUGHT: (.*)',l)
        if mm and mm.group(1)==own:
            rules|=set(re.findall(own+r'/([A-Za-z0-9-]+)',mm.group(2)))
    total+=1
    if rules: caught+=1; cell=', '.join(sorted(rules))
    else: missed.append(sid); cell='missed by its own check'
    rows.append(f'| {sid} | {need} | {cell} |')
print('| Change | What it needs to manifest (short) | Rules of its own property\'s quick check that fire |')
print('|---|---|---|')
print('\n'.join(rows))
print()
print(f'<!-- {caught} of {total} caught by their own check; missed: {missed} -->')
