// Package journal defines the recorded history of one simulated run: a flat list of events written by
// the worker (one JSON object per line, unbuffered, so it is complete up to a process death) and read
// by the oracles.
package journal

import (
	"bufio"
	"bytes"
	"crypto/sha256"
	"encoding/binary"
	"encoding/hex"
	"encoding/json"
	"fmt"
	"io"
	"os"
	"syscall"
)

// Off is a DCP resume point (offset / checkpoint document / stream request fields).
type Off struct {
	UUID   uint64 `json:"uuid"`
	Seq    uint64 `json:"seq"`
	Start  uint64 `json:"ss"`
	End    uint64 `json:"se"`
	Latest uint64 `json:"latest,omitempty"` // requested end (stream request) / Offset.LatestSeqNo
}

func (o *Off) String() string {
	if o == nil {
		return "<nil>"
	}
	return fmt.Sprintf("{uuid=%d seq=%d snap=[%d,%d] end=%d}", o.UUID, o.Seq, o.Start, o.End, o.Latest)
}

// Ev is one journal event. K selects which fields are meaningful (see the K* constants).
type Ev struct {
	N   int                `json:"n"`           // global event sequence number
	St  int                `json:"st"`          // scheduler step during which it happened
	T   int64              `json:"t"`           // fake time, ns since run start
	K   string             `json:"k"`           // kind
	M   int                `json:"m,omitempty"` // member (1-based), 0 = none
	Vb  int                `json:"vb"`          // vBucket, -1 = none
	Seq uint64             `json:"seq,omitempty"`
	Key []byte             `json:"key,omitempty"`
	S   string             `json:"s,omitempty"`  // name / command / status / kind, by K
	S2  string             `json:"s2,omitempty"` // secondary string
	I   int64              `json:"i,omitempty"`
	U   uint64             `json:"u,omitempty"`
	U2  uint64             `json:"u2,omitempty"`
	B   bool               `json:"b,omitempty"`
	Off *Off               `json:"off,omitempty"`
	Raw []byte             `json:"raw,omitempty"`
	F   map[string]float64 `json:"f,omitempty"`
	L   []uint64           `json:"l,omitempty"`
	A   map[string]string  `json:"a,omitempty"`
	ID  string             `json:"id,omitempty"` // request / call / event identity
}

// Event kinds.
const (
	KRun     = "run"     // S=property, S2=scenario, A=params, I=seed
	KStep    = "step"    // ID=chosen action id, I=index chosen, U=number of enabled actions
	KReq     = "req"     // request arrived at node: ID=req id, S=command, Vb, Key, M
	KRsp     = "rsp"     // reply sent: ID=req id, S=command, S2=status, M
	KSReq    = "sreq"    // STREAM_REQ answered: M, Vb, Off(uuid,seq=start,ss,se,latest=end), U=flags, S2=status, U2=rollback seq, L=failover log (uuid,seq pairs), ID=stream id
	KKVW     = "kvw"     // KV write applied at node: M, Key, S=op, S2=bucket, Raw=xattr payload or body, Off=parsed checkpoint (if any), Vb=ckpt vb (or -1), U=cas
	KKVR     = "kvr"     // KV read answered: M, Key, S=op, S2=status, Raw=payload
	KEmit    = "emit"    // DCP message handed to a connection: M, Vb, S=kind, Seq, Key, U=snap start, U2=snap end (marker), ID=stream id, I=cas, A=other fields
	KSeqnos  = "seqnos"  // GET_ALL_VB_SEQNOS answered: M, L=(vb,seq pairs), I=collection filter or -1, S=agent role
	KObs     = "obs"     // OBSERVE_SEQNO answered: M, Vb, I=replica idx, U=uuid, U2=persisted, Seq=current, S2=status
	KFlog    = "flog"    // failover log answered: M, Vb, L=pairs, S2=status
	KConsume = "consume" // ConsumeEvent invoked: M, Vb, Seq, S=kind, Key, Off, ID=event id, A=all other fields
	KConsEnd = "consend" // ConsumeEvent returned: M, ID
	KAck     = "ack"     // Ack invoked: M, Vb, Seq, ID=event id
	KAckEnd  = "ackend"  // Ack returned
	KTrack   = "track"   // TrackOffset invoked: M, Vb, Off
	KHandler = "handler" // lifecycle callback: M, S=name
	KCall    = "call"    // blocking API call begins: M, S=name, ID
	KRet     = "ret"     // ... returns: M, S=name, ID, S2=result
	KReady   = "ready"   // member signalled readiness
	KScrape  = "scrape"  // metrics scraped: M, F=values (name{labels}), B=ok
	KAPI     = "api"     // HTTP API request answered: M, S=method+path, S2=body, I=status
	KCrash   = "crash"   // member crashed (injected): M
	KFault   = "fault"   // fault injected: S=kind, ID=target
	KProbe   = "probe"   // reach probe hit: S=name
	KNote    = "note"    // free text: S
	KWrite   = "extw"    // external write applied to the bucket: Vb, Seq, S=kind, Key
	KPersist = "persist" // copy state changed: Vb, I=replica idx, U=uuid, U2=persisted
	KDisk    = "disk"    // simulated disk event: S=op, S2=file, Raw=content, B=ok
	KConn    = "conn"    // connection event: S=open|close|drop, ID=conn id, M
	KQuiesce = "quiesce" // quiesce phase begins
	KEnd     = "end"     // run finished normally: S=reason
	KExpect  = "expect"  // scenario declares a legitimate fail-stop from now on: S=message substring
	KPublish = "publish" // membership notification published: M, S=via, I=number, U=total, B=changed(by publisher's own filter)
	KMember  = "member"  // member started: M, A=config
)

// Writer writes events as JSON lines with one Write call per event.
type Writer struct {
	w io.Writer
	n int
}

func NewWriter(w io.Writer) *Writer { return &Writer{w: w} }

// MapWriter appends to a shared memory mapping of a file: no system call per event (a goroutine blocked
// in a write system call hands its P to another thread, which lets wall-clock load reorder goroutines),
// and what was written survives the death of the process. Layout: 8-byte length, then the bytes.
type MapWriter struct {
	mem []byte
	pos int
}

const MapSize = 1 << 28

func NewMapWriter(path string) (*MapWriter, error) {
	f, err := os.OpenFile(path, os.O_CREATE|os.O_RDWR|os.O_TRUNC, 0o644)
	if err != nil {
		return nil, err
	}
	defer f.Close()
	if err := f.Truncate(MapSize); err != nil {
		return nil, err
	}
	mem, err := syscall.Mmap(int(f.Fd()), 0, MapSize, syscall.PROT_READ|syscall.PROT_WRITE, syscall.MAP_SHARED)
	if err != nil {
		return nil, err
	}
	return &MapWriter{mem: mem, pos: 8}, nil
}

func (m *MapWriter) Write(b []byte) (int, error) {
	if m.pos+len(b) > len(m.mem) {
		return 0, io.ErrShortWrite
	}
	copy(m.mem[m.pos:], b)
	m.pos += len(b)
	binary.LittleEndian.PutUint64(m.mem[0:8], uint64(m.pos-8))
	return len(b), nil
}

// ReadMapFile returns the journal bytes of a file written by MapWriter.
func ReadMapFile(path string) ([]byte, error) {
	f, err := os.Open(path)
	if err != nil {
		return nil, err
	}
	defer f.Close()
	var hdr [8]byte
	if _, err := io.ReadFull(f, hdr[:]); err != nil {
		return nil, err
	}
	n := binary.LittleEndian.Uint64(hdr[:])
	if n > MapSize {
		return nil, fmt.Errorf("journal: bad length %d", n)
	}
	buf := make([]byte, n)
	_, err = io.ReadFull(f, buf)
	return buf, err
}

func (jw *Writer) Write(e *Ev) {
	jw.n++
	e.N = jw.n
	b, err := json.Marshal(e)
	if err != nil {
		panic(err)
	}
	b = append(b, '\n')
	_, _ = jw.w.Write(b)
}

// Read parses a journal; a truncated last line (process death mid-write) is dropped.
func Read(r io.Reader) ([]Ev, error) {
	var out []Ev
	br := bufio.NewReaderSize(r, 1<<20)
	for {
		line, err := br.ReadBytes('\n')
		if len(bytes.TrimSpace(line)) > 0 {
			var e Ev
			if jerr := json.Unmarshal(line, &e); jerr != nil {
				if err == io.EOF {
					return out, nil
				}
				return out, fmt.Errorf("journal line %d: %v", len(out)+1, jerr)
			}
			out = append(out, e)
		}
		if err == io.EOF {
			return out, nil
		}
		if err != nil {
			return out, err
		}
	}
}

// Digest identifies an execution by its decision sequence (chosen action ids with their fake times)
// and its consumer-visible events; it is what the determinism self-test and the reproducibility gate compare.
func Digest(evs []Ev) string {
	h := sha256.New()
	for i := range evs {
		e := &evs[i]
		switch e.K {
		case KStep:
			fmt.Fprintf(h, "S %d %d %s\n", e.St, e.T, e.ID)
		case KConsume, KAck:
			fmt.Fprintf(h, "%s %d %d %d %d\n", e.K, e.M, e.Vb, e.Seq, e.T)
		case KRet, KReady, KCrash, KEnd:
			fmt.Fprintf(h, "%s %d %s %s %d\n", e.K, e.M, e.S, e.S2, e.T)
		}
	}
	return hex.EncodeToString(h.Sum(nil)[:8])
}
