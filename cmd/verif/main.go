// Command verif is the supervisor: it rebuilds the worker from /repo's working tree, fans simulated
// runs out over worker processes (one run = one OS process = one synctest bubble), judges every
// journal with the property's history checker, minimises and replays failures, applies the
// known-findings file, and writes the evidence file.
//
//	verif check  -prop C03 [-tier quick|thorough] [-runs N] [-time S]
//	verif replay <file>
//	verif selftest [-seeds N]
//
// Exit codes: 0 held on everything explored; 1 + "VIOLATION property=<id> replay=<path>"; 2 harness trouble.
package main

import (
	"bytes"
	"context"
	"crypto/sha256"
	"encoding/hex"
	"encoding/json"
	"flag"
	"fmt"
	"hash/fnv"
	"os"
	"os/exec"
	"path/filepath"
	"regexp"
	"sort"
	"strconv"
	"strings"
	"sync"
	"time"

	"verif/journal"
	"verif/oracle"
)

const verifDir = "/verif"

type ReplayFile struct {
	Property  string            `json:"property"`
	Scenario  string            `json:"scenario,omitempty"`
	Tier      string            `json:"tier"`
	Seed      int64             `json:"seed"`
	Tape      []int             `json:"tape"`
	Violation *oracle.Violation `json:"violation,omitempty"`
	Digest    string            `json:"journal_digest,omitempty"`
	Steps     []string          `json:"schedule,omitempty"` // human-readable: the chosen actions
	Faults    map[string]int    `json:"faults,omitempty"`
}

type KnownFinding struct {
	Property string `json:"property"`
	Rule     string `json:"rule"`
	SigRe    string `json:"signature_regex"`
	What     string `json:"what"`
	re       *regexp.Regexp
}

type KnownFile struct {
	Findings []KnownFinding `json:"findings"`
	Fixed    []string       `json:"fixed"`
}

func loadKnown() *KnownFile {
	kf := &KnownFile{}
	b, err := os.ReadFile(filepath.Join(verifDir, "known_findings.json"))
	if err != nil {
		return kf
	}
	if err := json.Unmarshal(b, kf); err != nil {
		fmt.Fprintf(os.Stderr, "known_findings.json: %v\n", err)
		os.Exit(2)
	}
	for i := range kf.Findings {
		kf.Findings[i].re = regexp.MustCompile(kf.Findings[i].SigRe)
	}
	return kf
}

func (kf *KnownFile) match(v *oracle.Violation) *KnownFinding {
	for i := range kf.Findings {
		f := &kf.Findings[i]
		if f.Property == v.Prop && f.Rule == v.Rule && f.re.MatchString(v.Sig) {
			return f
		}
	}
	return nil
}

// ---------------------------------------------------------------------------------------------

type runOut struct {
	seed   int64
	run    *oracle.Run
	res    *oracle.Result
	tape   []int
	digest string
	wall   time.Duration
	scen   string
}

var workerBin = func() string {
	if p := os.Getenv("VERIF_WORKER_BIN"); p != "" {
		return p // experiments next to a running batch
	}
	return filepath.Join(verifDir, "bin", "worker.test")
}()

func runWorker(prop, scen, tier string, seed int64, tape []int, gomaxprocs int, limit time.Duration) *runOut {
	if scen == "" {
		scen = prop
	}
	ctx, cancel := context.WithTimeout(context.Background(), limit)
	defer cancel()
	cmd := exec.CommandContext(ctx, workerBin, "-test.run", "^TestRun$", "-test.timeout", "0")
	env := append(os.Environ(), "VERIF_PROP="+scen, "VERIF_TIER="+tier, "VERIF_SEED="+strconv.FormatInt(seed, 10),
		"GODEBUG=randseednop=0,asyncpreemptoff=1", "GOMAXPROCS="+strconv.Itoa(gomaxprocs), "GOTRACEBACK=all",
		"GOGC=off", "GOMEMLIMIT=3GiB") // no collector: a stop-the-world requeues the running goroutine at a wall-clock-dependent point
	var rfPath string
	if tape != nil {
		f, err := os.CreateTemp("", "verif-replay-*.json")
		if err != nil {
			fmt.Fprintln(os.Stderr, err)
			os.Exit(2)
		}
		rfPath = f.Name()
		b, _ := json.Marshal(ReplayFile{Property: scen, Tier: tier, Seed: seed, Tape: tape})
		_, _ = f.Write(b)
		_ = f.Close()
		defer os.Remove(rfPath)
		env = append(env, "VERIF_REPLAY="+rfPath)
	}
	jf, err := os.CreateTemp(journalDir(), "verif-journal-*")
	if err != nil {
		fmt.Fprintln(os.Stderr, err)
		os.Exit(2)
	}
	jpath := jf.Name()
	_ = jf.Close()
	defer os.Remove(jpath)
	env = append(env, "VERIF_JOURNAL="+jpath)
	cmd.Env = env
	var stdout, stderr bytes.Buffer
	cmd.Stdout, cmd.Stderr = &stdout, &stderr
	t0 := time.Now()
	err = cmd.Run()
	out := &runOut{seed: seed, wall: time.Since(t0), scen: scen}
	run := &oracle.Run{Prop: prop, Stderr: stderr.String()}
	if ctx.Err() != nil {
		run.Hung = true
	}
	if err != nil {
		if ee, ok := err.(*exec.ExitError); ok {
			run.ExitCode = ee.ExitCode()
		} else {
			run.ExitCode = 3
		}
	}
	jb, _ := journal.ReadMapFile(jpath)
	evs, _ := journal.Read(bytes.NewReader(jb))
	run.Evs = evs
	out.run = run
	for i := range evs {
		if evs[i].K == "d" {
			out.tape = append(out.tape, int(evs[i].I))
		}
	}
	out.digest = journal.Digest(evs)
	out.res = oracle.Check(run)
	return out
}

// journalDir: the workers' journals are memory-mapped files; a RAM-backed directory when there is one.
func journalDir() string {
	if st, err := os.Stat("/dev/shm"); err == nil && st.IsDir() {
		return "/dev/shm"
	}
	return os.TempDir()
}

func deriveSeed(base int64, prop string, i int) int64 {
	h := fnv.New64a()
	fmt.Fprintf(h, "%d|%s|%d", base, prop, i)
	return int64(h.Sum64() >> 1)
}

func build() {
	cmd := exec.Command(filepath.Join(verifDir, "build.sh"))
	cmd.Stdout, cmd.Stderr = os.Stderr, os.Stderr
	if err := cmd.Run(); err != nil {
		fmt.Fprintf(os.Stderr, "verif: build failed: %v\n", err)
		os.Exit(2)
	}
}

// ---------------------------------------------------------------------------------------------
// minimisation: delta debugging on the tape, every candidate in a fresh worker

var knownFile *KnownFile

// sameRule returns a violation of the rule that the known-findings file does not list (minimisation
// and the reproducibility gate preserve "same rule, still not a listed finding").
func sameRule(o *runOut, rule string) *oracle.Violation {
	for i := range o.res.Violations {
		v := &o.res.Violations[i]
		if v.Rule == rule && (knownFile == nil || knownFile.match(v) == nil) {
			return v
		}
	}
	return nil
}

func minimise(prop, scen, tier string, seed int64, tape []int, rule string, budget time.Duration) []int {
	deadline := time.Now().Add(budget)
	tries := 0
	test := func(cands [][]int) int {
		// evaluates candidates in parallel, returns the index of the first that still fails (or -1)
		res := make([]bool, len(cands))
		var wg sync.WaitGroup
		sem := make(chan struct{}, 16)
		for i := range cands {
			if time.Now().After(deadline) {
				break
			}
			wg.Add(1)
			sem <- struct{}{}
			go func(i int) {
				defer wg.Done()
				defer func() { <-sem }()
				o := runWorker(prop, scen, tier, seed, cands[i], 1, 30*time.Second)
				res[i] = sameRule(o, rule) != nil
			}(i)
			tries++
		}
		wg.Wait()
		for i, ok := range res {
			if ok {
				return i
			}
		}
		return -1
	}
	cur := append([]int{}, tape...)
	// 1. shortest failing prefix (past the end of the tape every choice is the benign default)
	lo, hi := 0, len(cur)
	for lo < hi && time.Now().Before(deadline) {
		mid := (lo + hi) / 2
		if test([][]int{cur[:mid]}) == 0 {
			hi = mid
		} else {
			lo = mid + 1
		}
	}
	if hi < len(cur) && test([][]int{cur[:hi]}) == 0 {
		cur = cur[:hi]
	}
	// 2. remove chunks
	for chunk := len(cur) / 2; chunk >= 1 && time.Now().Before(deadline); chunk /= 2 {
		for again := true; again && time.Now().Before(deadline); {
			again = false
			var cands [][]int
			var starts []int
			for s := 0; s+chunk <= len(cur); s += chunk {
				c := append(append([]int{}, cur[:s]...), cur[s+chunk:]...)
				cands = append(cands, c)
				starts = append(starts, s)
				if len(cands) == 32 {
					break
				}
			}
			if len(cands) == 0 {
				break
			}
			if i := test(cands); i >= 0 {
				cur = cands[i]
				again = true
			}
		}
	}
	// 3. lower values toward zero
	for pass := 0; pass < 2 && time.Now().Before(deadline); pass++ {
		var cands [][]int
		var idx []int
		for i, v := range cur {
			if v != 0 {
				c := append([]int{}, cur...)
				c[i] = 0
				cands = append(cands, c)
				idx = append(idx, i)
			}
		}
		for len(cands) > 0 && time.Now().Before(deadline) {
			n := len(cands)
			if n > 16 {
				n = 16
			}
			if i := test(cands[:n]); i >= 0 {
				cur[idx[i]] = 0
				// rebuild remaining candidates on the new base
				var nc [][]int
				var ni []int
				for j := i + 1; j < len(idx); j++ {
					c := append([]int{}, cur...)
					c[idx[j]] = 0
					nc = append(nc, c)
					ni = append(ni, idx[j])
				}
				cands, idx = nc, ni
			} else {
				cands, idx = cands[n:], idx[n:]
			}
		}
	}
	fmt.Fprintf(os.Stderr, "verif: minimised tape %d -> %d entries in %d candidate runs\n", len(tape), len(cur), tries)
	return cur
}

// ---------------------------------------------------------------------------------------------

type Evidence struct {
	PropertyID  string         `json:"property_id"`
	Tier        string         `json:"tier"`
	Seed        int64          `json:"seed"`
	Level       string         `json:"level"`
	Coverage    map[string]any `json:"coverage"`
	Assumptions []string       `json:"assumptions"`
	WallS       float64        `json:"wall_s"`
	Violations  int            `json:"violations"`
}

func stepList(evs []journal.Ev) []string {
	var out []string
	for i := range evs {
		if evs[i].K == journal.KStep {
			out = append(out, fmt.Sprintf("t=%s %s", time.Duration(evs[i].T), evs[i].ID))
		}
	}
	return out
}

func hashStr(s string) string {
	h := sha256.Sum256([]byte(s))
	return hex.EncodeToString(h[:8])
}

func check(args []string) int {
	fs := flag.NewFlagSet("check", flag.ExitOnError)
	prop := fs.String("prop", "", "property id")
	tier := fs.String("tier", os.Getenv("VERIF_TIER"), "quick|thorough")
	runs := fs.Int("runs", 0, "number of runs (0 = tier default)")
	secs := fs.Int("time", 0, "wall-clock cap for the batch in seconds (0 = tier default)")
	workers := fs.Int("workers", 16, "parallel worker processes")
	nobuild := fs.Bool("nobuild", false, "skip rebuilding the worker")
	_ = fs.Parse(args)
	if *tier == "" {
		*tier = "quick"
	}
	base := int64(1)
	if s := os.Getenv("VERIF_SEED"); s != "" {
		if v, err := strconv.ParseInt(s, 10, 64); err == nil {
			base = v
		}
	}
	spec, ok := props[*prop]
	if !ok {
		fmt.Fprintf(os.Stderr, "verif: no check for property %q\n", *prop)
		return 2
	}
	if *runs == 0 {
		*runs = spec.quickRuns
		if *tier == "thorough" {
			*runs = spec.thoroughRuns
		}
	}
	if *secs == 0 {
		*secs = 75
		if *tier == "thorough" {
			*secs = 900
		}
	}
	t0 := time.Now()
	if !*nobuild {
		build()
	}
	known := loadKnown()
	knownFile = known
	deadline := time.Now().Add(time.Duration(*secs) * time.Second)

	type agg struct {
		sync.Mutex
		evaluations  int
		traces       map[string]bool
		nontrivial   map[string]bool
		states       map[string]bool
		probes       map[string]int
		faults       map[string]int
		failstops    map[string]int
		deaths       map[string]int
		steps        int
		simNs        int64
		events       int
		hangs        int
		harness      int
		harnessMsgs  map[string]int
		samples      []any
		viol         map[string]*runOut // first run per rule
		violCount    map[string]int
		knownHit     map[string]int
		knownEntry   map[string]int
		unattributed []string
	}
	a := &agg{traces: map[string]bool{}, nontrivial: map[string]bool{}, states: map[string]bool{}, probes: map[string]int{}, faults: map[string]int{},
		failstops: map[string]int{}, deaths: map[string]int{}, viol: map[string]*runOut{}, violCount: map[string]int{}, knownHit: map[string]int{}, knownEntry: map[string]int{}, harnessMsgs: map[string]int{}}

	jobs := make(chan int)
	var wg sync.WaitGroup
	for wk := 0; wk < *workers; wk++ {
		wg.Add(1)
		go func() {
			defer wg.Done()
			for i := range jobs {
				seed := deriveSeed(base, *prop, i)
				scen := *prop
				if len(spec.scenarios) > 0 {
					scen = spec.scenarios[i%len(spec.scenarios)]
				}
				o := runWorker(*prop, scen, *tier, seed, nil, 1, spec.runLimit)
				a.Lock()
				a.evaluations++
				th := hashStr(o.res.TraceHash)
				a.traces[th] = true
				if len(o.res.Probes) > 0 {
					a.nontrivial[th] = true
				}
				for _, s := range o.res.States {
					a.states[s] = true
				}
				for k, v := range o.res.Probes {
					a.probes[k] += v
				}
				for k, v := range o.res.Faults {
					a.faults[k] += v
				}
				a.steps += o.res.Steps
				a.simNs += o.res.SimTimeNs
				a.events += o.res.Events
				switch o.res.DeathKind {
				case "":
				case "hang":
					a.hangs++
				case "harness":
					a.harness++
					a.harnessMsgs[o.res.FailStop]++
					if a.harness <= 3 {
						fmt.Fprintf(os.Stderr, "verif: harness trouble seed=%d: %s\n%s\n", seed, o.res.FailStop, tail(o.run.Stderr, 1500))
					}
				default:
					a.deaths[o.res.DeathKind]++
					a.failstops[o.res.FailStop]++
				}
				if len(a.samples) < 3 && o.res.DeathKind == "" {
					st := stepList(o.run.Evs)
					if len(st) > 40 {
						st = st[:40]
					}
					a.samples = append(a.samples, map[string]any{"seed": seed, "tape_len": len(o.tape), "steps": o.res.Steps, "first_actions": st, "probes": o.res.Probes})
				}
				for vi := range o.res.Violations {
					v := &o.res.Violations[vi]
					a.violCount[v.Rule]++
					if kf := known.match(v); kf != nil {
						a.knownHit[v.Rule]++
						a.knownEntry[kf.Rule+" | "+kf.SigRe]++
						continue
					}
					if _, seen := a.viol[v.Rule]; !seen {
						a.viol[v.Rule] = o
					}
				}
				a.Unlock()
			}
		}()
	}
	for i := 0; i < *runs; i++ {
		if time.Now().After(deadline) {
			break
		}
		a.Lock()
		stop := len(a.viol) > 0 && a.evaluations > 200 // enough to report; leave time for minimisation
		a.Unlock()
		if stop {
			break
		}
		jobs <- i
	}
	close(jobs)
	wg.Wait()

	exit := 0
	// report
	var rules []string
	for r := range a.viol {
		rules = append(rules, r)
	}
	sort.Strings(rules)
	var reported []map[string]any
	nonrepro := 0
	for _, rule := range rules {
		o := a.viol[rule]
		v := sameRule(o, rule)
		mt := minimise(*prop, o.scen, *tier, o.seed, o.tape, rule, 90*time.Second)
		// reproducibility gate: three fresh replays must fail with the same rule and digest
		var first *runOut
		okRepro := true
		for k := 0; k < 3; k++ {
			r := runWorker(*prop, o.scen, *tier, o.seed, mt, 1, 30*time.Second)
			if sameRule(r, rule) == nil {
				okRepro = false
				break
			}
			if first == nil {
				first = r
			} else if r.digest != first.digest {
				okRepro = false
				break
			}
		}
		if !okRepro {
			// fall back to the unminimised tape
			first = nil
			okRepro = true
			mt = o.tape
			for k := 0; k < 3; k++ {
				r := runWorker(*prop, o.scen, *tier, o.seed, mt, 1, 30*time.Second)
				if sameRule(r, rule) == nil || (first != nil && r.digest != first.digest) {
					okRepro = false
					break
				}
				if first == nil {
					first = r
				}
			}
		}
		if !okRepro {
			nonrepro++
			fmt.Fprintf(os.Stderr, "verif: %s seed=%d did not reproduce identically; not reported (counted as nonreproducible)\n", rule, o.seed)
			continue
		}
		v = sameRule(first, rule)
		rf := ReplayFile{Property: *prop, Scenario: o.scen, Tier: *tier, Seed: o.seed, Tape: mt, Violation: v, Digest: first.digest, Steps: stepList(first.run.Evs), Faults: first.res.Faults}
		_ = os.MkdirAll(filepath.Join(verifDir, "replays"), 0o755)
		name := fmt.Sprintf("%s-%s-%d.json", *prop, strings.ReplaceAll(strings.TrimPrefix(rule, *prop+"/"), "/", "_"), o.seed)
		path := filepath.Join(verifDir, "replays", name)
		b, _ := json.MarshalIndent(rf, "", " ")
		_ = os.WriteFile(path, b, 0o644)
		fmt.Printf("VIOLATION property=%s replay=%s rule=%s detail=%q\n", *prop, path, rule, v.Detail)
		reported = append(reported, map[string]any{"rule": rule, "replay": path, "detail": v.Detail, "runs_hitting": a.violCount[rule]})
		exit = 1
	}
	// one KNOWN-FINDING line per listed entry (rule + history signature) that occurred
	for _, f := range known.Findings {
		if n := a.knownEntry[f.Rule+" | "+f.SigRe]; n > 0 && f.Property == *prop {
			fmt.Printf("KNOWN-FINDING: property=%s %s (rule %s, signature %s, %d occurrences)\n", *prop, f.What, f.Rule, f.SigRe, n)
		}
	}
	wall := time.Since(t0).Seconds()
	if a.evaluations == 0 || a.harness*5 > a.evaluations || a.hangs*5 > a.evaluations {
		fmt.Fprintf(os.Stderr, "verif: harness trouble: evaluations=%d harness=%d hangs=%d %v\n", a.evaluations, a.harness, a.hangs, a.harnessMsgs)
		if exit == 0 {
			exit = 2
		}
	}
	// required probes (vacuity) — thorough tier only
	var missing []string
	for _, p := range spec.requiredProbes {
		if a.probes[p] == 0 {
			missing = append(missing, p)
		}
	}
	if len(missing) > 0 {
		fmt.Fprintf(os.Stderr, "verif: required probes never hit: %v\n", missing)
		if *tier == "thorough" && exit == 0 {
			exit = 2
		}
	}
	cov := map[string]any{
		"evaluations":         a.evaluations,
		"distinct_nontrivial": len(a.nontrivial),
		"rule": "one evaluation = one simulated run (one OS process, one synctest bubble) of the real go-dcp + gocbcore code against the simulated cluster, every choice drawn from the seed's tape; " +
			"distinct = distinct abstract traces (sha256 of the sequence of chosen action kinds with vBucket/key/member identities dropped); non-trivial = the run hit at least one of the property's reach probes; " +
			"distinct_states = distinct abstract step effects (kind of the chosen action => set of kinds of what the system did in response during that step, identities dropped)",
		"samples":                a.samples,
		"distinct_traces":        len(a.traces),
		"distinct_states":        len(a.states),
		"steps":                  a.steps,
		"journal_events":         a.events,
		"sim_time_s":             float64(a.simNs) / 1e9,
		"runs_per_hour":          float64(a.evaluations) / wall * 3600,
		"seeds":                  map[string]any{"base": base, "derivation": "fnv64a(base|property|index)>>1", "indexes": []int{0, a.evaluations - 1}},
		"faults_fired":           a.faults,
		"probes":                 a.probes,
		"required_probes":        spec.requiredProbes,
		"required_probes_missed": missing,
		"process_deaths":         a.deaths,
		"fail_stops":             a.failstops,
		"hangs":                  a.hangs,
		"harness_trouble":        a.harness,
		"nonreproducible":        nonrepro,
		"known_findings_hit":     a.knownHit,
		"known_entries_hit":      a.knownEntry,
		"violations_reported":    reported,
		"rule_hit_counts":        a.violCount,
		"components":             componentsOf(*prop),
	}
	ev := Evidence{PropertyID: *prop, Tier: *tier, Seed: base, Level: spec.level, Coverage: cov, WallS: wall, Violations: len(reported),
		Assumptions: append([]string{
			"the simulated cluster is a faithful model of the server behaviour go-dcp relies on (hand-written; see DESIGN.md section 5)",
			"go1.26.8 + testing/synctest execute the code with the same semantics as the repository's own toolchain; sonic falls back to encoding/json",
			"sampling: a clean batch is evidence over the explored runs, not proof",
		}, spec.assumptions...)}
	_ = os.MkdirAll(filepath.Join(verifDir, "evidence"), 0o755)
	b, _ := json.MarshalIndent(ev, "", " ")
	if err := os.WriteFile(filepath.Join(verifDir, "evidence", *prop+".json"), b, 0o644); err != nil {
		fmt.Fprintln(os.Stderr, err)
		return 2
	}
	fmt.Fprintf(os.Stderr, "verif: %s %s: %d runs, %d distinct traces, %d steps, %.0f s fake time, wall %.1fs, hangs %d, deaths %v, violations %d, known %v\n",
		*prop, *tier, a.evaluations, len(a.traces), a.steps, float64(a.simNs)/1e9, wall, a.hangs, a.deaths, len(reported), a.knownHit)
	return exit
}

func tail(s string, n int) string {
	if len(s) > n {
		return s[len(s)-n:]
	}
	return s
}

func replay(args []string) int {
	if len(args) < 1 {
		fmt.Fprintln(os.Stderr, "usage: verif replay <file> [-nobuild] [-v]")
		return 2
	}
	b, err := os.ReadFile(args[0])
	if err != nil {
		fmt.Fprintln(os.Stderr, err)
		return 2
	}
	var rf ReplayFile
	if err := json.Unmarshal(b, &rf); err != nil {
		fmt.Fprintln(os.Stderr, err)
		return 2
	}
	verbose, nobuild, short := false, false, false
	filter := ""
	for _, x := range args[1:] {
		if x == "-v" {
			verbose = true
		}
		if x == "-s" {
			short = true
		}
		if strings.HasPrefix(x, "-f=") {
			filter = x[3:]
		}
		if x == "-nobuild" {
			nobuild = true
		}
	}
	if !nobuild {
		build()
	}
	tier := rf.Tier
	if tier == "" {
		tier = "quick"
	}
	o := runWorker(rf.Property, rf.Scenario, tier, rf.Seed, rf.Tape, 1, 60*time.Second)
	if verbose {
		for i := range o.run.Evs {
			if o.run.Evs[i].K == "d" {
				continue
			}
			jb, _ := json.Marshal(o.run.Evs[i])
			fmt.Println(string(jb))
		}
		n := 4000
		if os.Getenv("VERIF_DUMP_AT_END") != "" {
			n = 400000
		}
		fmt.Fprintln(os.Stderr, tail(o.run.Stderr, n))
	}
	if short {
		re := regexp.MustCompile(filter)
		for i := range o.run.Evs {
			e := &o.run.Evs[i]
			if e.K == "d" || e.K == "cfg" {
				continue
			}
			line := fmt.Sprintf("#%d st%d t=%.3f %s m%d vb%d seq=%d s=%s s2=%s id=%s key=%s", e.N, e.St, float64(e.T)/1e9, e.K, e.M, e.Vb, e.Seq, e.S, e.S2, e.ID, string(e.Key))
			if e.Off != nil {
				line += " off=" + e.Off.String()
			}
			if len(line) > 240 {
				line = line[:240]
			}
			if filter == "" || re.MatchString(line) {
				fmt.Println(line)
			}
		}
		fmt.Fprintln(os.Stderr, tail(o.run.Stderr, 1500))
	}
	fmt.Printf("replay: property=%s seed=%d digest=%s (recorded %s) death=%q %s\n", rf.Property, rf.Seed, o.digest, rf.Digest, o.res.DeathKind, o.res.FailStop)
	code := 0
	for _, v := range o.res.Violations {
		fmt.Printf("VIOLATION property=%s replay=%s rule=%s detail=%q\n", v.Prop, args[0], v.Rule, v.Detail)
		code = 1
	}
	if rf.Violation != nil && sameRule(o, rf.Violation.Rule) == nil {
		fmt.Printf("replay: recorded rule %s did NOT fire\n", rf.Violation.Rule)
	}
	return code
}

// selftest: determinism — every seed executed at GOMAXPROCS 1, 4 and 16, twice each, in separate
// processes; digests must agree.
func selftest(args []string) int {
	fs := flag.NewFlagSet("selftest", flag.ExitOnError)
	seeds := fs.Int("seeds", 40, "seeds per property")
	propList := fs.String("props", "", "comma separated (default: all)")
	nobuild := fs.Bool("nobuild", false, "")
	_ = fs.Parse(args)
	if !*nobuild {
		build()
	}
	var ps []string
	if *propList != "" {
		ps = strings.Split(*propList, ",")
	} else {
		for p, sp := range props {
			if len(sp.scenarios) == 0 {
				ps = append(ps, p)
			}
			ps = append(ps, sp.scenarios...)
		}
		sort.Strings(ps)
	}
	type job struct {
		prop string
		seed int64
		gmp  int
	}
	type res struct {
		job
		digest string
	}
	var jobs []job
	for _, p := range ps {
		for i := 0; i < *seeds; i++ {
			for _, g := range []int{1, 1, 1} {
				for rep := 0; rep < 2; rep++ {
					jobs = append(jobs, job{p, deriveSeed(77, p, i), g})
				}
			}
		}
	}
	out := make([]res, len(jobs))
	var wg sync.WaitGroup
	sem := make(chan struct{}, 16)
	for i, j := range jobs {
		wg.Add(1)
		sem <- struct{}{}
		go func(i int, j job) {
			defer wg.Done()
			defer func() { <-sem }()
			o := runWorker(propOfScenario(j.prop), j.prop, "quick", j.seed, nil, j.gmp, 60*time.Second)
			out[i] = res{j, o.digest + "/" + o.res.DeathKind}
		}(i, j)
	}
	wg.Wait()
	by := map[string]map[string]int{}
	for _, r := range out {
		k := fmt.Sprintf("%s/%d", r.prop, r.seed)
		if by[k] == nil {
			by[k] = map[string]int{}
		}
		by[k][r.digest]++
	}
	bad := 0
	for k, m := range by {
		if len(m) != 1 {
			bad++
			fmt.Printf("NONDETERMINISTIC %s: %v\n", k, m)
		}
	}
	fmt.Printf("selftest: %d (property,seed) pairs x 6 executions (GOMAXPROCS 1/4/16 x2): %d diverged\n", len(by), bad)
	if bad > 0 {
		return 2
	}
	return 0
}

func main() {
	if len(os.Args) < 2 {
		fmt.Fprintln(os.Stderr, "usage: verif check|replay|selftest ...")
		os.Exit(2)
	}
	switch os.Args[1] {
	case "check":
		os.Exit(check(os.Args[2:]))
	case "replay":
		os.Exit(replay(os.Args[2:]))
	case "selftest":
		os.Exit(selftest(os.Args[2:]))
	default:
		fmt.Fprintln(os.Stderr, "unknown command")
		os.Exit(2)
	}
}

func componentsOf(prop string) map[string]any {
	if o, ok := componentOverrides[prop]; ok {
		return map[string]any{"real": o[0], "stub": o[1]}
	}
	return map[string]any{"real": defaultReal, "stub": defaultStub}
}
