package oracle

import (
	"fmt"
	"strings"

	"verif/journal"
)

// C15 — start-up fails fast instead of running on an inconsistent or partial basis.
func init() { checkers["C15"] = checkC15 }

func checkC15(run *Run, res *Result) {
	if run.Cfg.Prop == "C12" {
		// the stream-ends scenario: a vBucket stream that ends with a re-openable status while Open() is still
		// requesting the others must be re-opened (or the start-up must fail); a session that signals readiness and
		// then runs without that vBucket "silently covers only part of its assignment"
		readyN := map[int]int{}
		for i := range run.Evs {
			if e := &run.Evs[i]; e.K == journal.KReady && readyN[e.M] == 0 {
				readyN[e.M] = e.N
			}
		}
		tmp := &Result{Probes: map[string]int{}, Faults: map[string]int{}, DeathKind: res.DeathKind, FailStop: res.FailStop}
		checkC12(run, tmp)
		if res.Probes["end-during-open"] > 0 {
			res.probe("stream-ended-during-open-judged")
		}
		for _, v := range tmp.Violations {
			if v.Rule != "C12/R1-never-reopened" {
				continue
			}
			var m, vb int
			if _, err := fmt.Sscanf(v.Detail, "member %d vb %d:", &m, &vb); err == nil && readyN[m] > 0 && v.N < readyN[m] {
				res.violate("C15", "R3-ready-with-partial-assignment", v.N, fmt.Sprintf("vb=%d", vb),
					"member %d: the stream of vb %d ended with a re-openable status (event #%d) while Open() was still requesting the other vBuckets; the client signalled readiness (event #%d) and ran on without ever re-opening it", m, vb, v.N, readyN[m])
			}
		}
		return
	}
	cfg := &run.Cfg
	fault, faultVb := "none", -1
	high := map[int]map[int]uint64{}
	firstReq := map[vbKey]bool{}
	ready := map[int]int{}
	opened := map[int]map[int]bool{}
	consumed, sreqs := 0, 0
	var faultN int
	for i := range run.Evs {
		e := &run.Evs[i]
		k := vbKey{e.M, e.Vb}
		switch e.K {
		case journal.KNote:
			if strings.HasPrefix(e.S, "startup-fault:") {
				fault, faultVb = strings.TrimPrefix(e.S, "startup-fault:"), e.Vb
			}
		case journal.KExpect:
			if faultN == 0 {
				faultN = e.N
			}
		case journal.KHandler:
			if e.S == "BeforeStreamStart" {
				high[e.M] = map[int]uint64{}
				opened[e.M] = map[int]bool{}
			}
		case journal.KSeqnos:
			if e.S == "d" && e.I < 0 && high[e.M] != nil {
				for j := 0; j+1 < len(e.L); j += 2 {
					high[e.M][int(e.L[j])] = e.L[j+1]
				}
			}
		case journal.KConsume:
			consumed++
		case journal.KReq:
			if e.S == "CMD_DCPSTREAMREQ" {
				sreqs++
			}
		case journal.KSReq:
			if e.Off == nil {
				continue
			}
			if e.S2 == "ok" && opened[e.M] != nil {
				opened[e.M][e.Vb] = true
			}
			if e.U&0x80 != 0 && !firstReq[k] {
				firstReq[k] = true
				if h, ok := high[e.M][e.Vb]; ok && e.Off.Seq > h {
					res.violate("C15", "R2-requested-beyond-high-seqno", e.N, fmt.Sprintf("vb=%d", e.Vb),
						"member %d vb %d: stream requested from seqno %d, but the server reported high seqno %d to this session", e.M, e.Vb, e.Off.Seq, h)
				}
			}
		case journal.KReady:
			ready[e.M] = e.N
			res.probe("ready")
			// ready implies every assigned vBucket has an open stream
			if cfg.Membership == "static" && cfg.TotalMembers == 1 {
				for vb := 0; vb < cfg.NVb; vb++ {
					if !opened[e.M][vb] {
						res.violate("C15", "R3-ready-with-partial-assignment", e.N, fmt.Sprintf("vb=%d", vb),
							"member %d signalled readiness although the stream of assigned vb %d was never opened", e.M, vb)
					}
				}
			}
		}
	}
	res.probe("startup-fault:" + fault)
	refusing := fault != "none"
	if !refusing {
		return
	}
	died := run.ExitCode != 0
	if len(ready) > 0 {
		res.violate("C15", "R1-ran-despite-start-up-fault", len(run.Evs), fault,
			"start-up fault %q (vb %d) was injected, yet the client signalled readiness instead of terminating", fault, faultVb)
		return
	}
	if !died && run.Ended {
		res.violate("C15", "R1-did-not-terminate", len(run.Evs), fault,
			"start-up fault %q (vb %d) was injected; the client neither became ready nor terminated by the end of the run", fault, faultVb)
		return
	}
	if died && (res.DeathKind == "runtime-panic") {
		res.violate("C15", "R1-terminated-by-runtime-error", len(run.Evs), fault, "start-up fault %q: the process died with a runtime error rather than a deliberate refusal: %s", fault, res.FailStop)
	}
	// faults that precede opening: the consumer saw nothing and no stream was requested
	switch fault {
	case "ckpt-above-high", "load-error", "load-silent", "seqnos-error", "bad-membership", "bad-metadata", "file-read-error":
		if consumed > 0 || sreqs > 0 {
			res.violate("C15", "R4-streamed-before-refusing", len(run.Evs), fault,
				"start-up fault %q precedes opening, yet %d stream request(s) were sent and %d event(s) delivered before the client terminated", fault, sreqs, consumed)
		}
	}
}
