#!/bin/bash
# usage: seedcheck.sh <seeded-id> [validate|detect|both] [props...]
# validate: in a scratch worktree of /repo HEAD: demo passes without the patch; with it the existing suite passes and the demo fails.
# detect:   apply the patch to /repo, run the quick checks of the given properties (default: the seeded property), undo.
set -u
ID=$1; MODE=${2:-both}; shift; shift || true
D=/verif/seeded/$ID
PROP=$(python3 -c "import json;print(json.load(open('$D/meta.json'))['property'])")
PROPS=${*:-$PROP}
export GOFLAGS=-mod=mod GOPROXY=off GOSUMDB=off GOTOOLCHAIN=local
RES=$D/result.txt
: > $RES.tmp
if [ "$MODE" = detect ] && [ -f $RES ]; then grep '^validate' $RES >> $RES.tmp; fi
if [ "$MODE" = validate ] || [ "$MODE" = both ]; then
  WT=/tmp/wt/val
  [ -d $WT ] || git -C /repo worktree add -q $WT HEAD
  cd $WT && git checkout -q --detach $(git -C /repo rev-parse HEAD) && git checkout -q -- . && git clean -fdq
  python3 - "$D" "$WT" <<'PY'
import json,sys,shutil,os
d,wt=sys.argv[1:3]; m=json.load(open(d+'/meta.json'))
for f,dst in m['demo_files'].items(): shutil.copy(os.path.join(d,f), os.path.join(wt,dst))
PY
  CMD=$(python3 -c "import json;print(json.load(open('$D/meta.json'))['demo_cmd'])")
  if eval "$CMD" >/tmp/seed_demo_clean.log 2>&1; then echo "validate: demo PASSES on unchanged tree: ok" >> $RES.tmp; else echo "validate: demo FAILS on unchanged tree: BAD" >> $RES.tmp; tail -5 /tmp/seed_demo_clean.log >> $RES.tmp; fi
  if git apply $D/patch.diff; then
    if go build ./... >/tmp/seed_build.log 2>&1; then echo "validate: builds with patch: ok" >> $RES.tmp; else echo "validate: BUILD FAILS with patch: BAD" >> $RES.tmp; fi
    mv $(python3 -c "import json;print(' '.join(json.load(open('$D/meta.json'))['demo_files'].values()))") /tmp/ 2>/dev/null
    if go test -vet=off -count=1 ./... >/tmp/seed_suite.log 2>&1; then echo "validate: existing suite passes with patch: ok" >> $RES.tmp; else echo "validate: existing suite FAILS with patch: BAD" >> $RES.tmp; grep -v "^ok\|no test files" /tmp/seed_suite.log | head -5 >> $RES.tmp; fi
    python3 - "$D" "$WT" <<'PY'
import json,sys,shutil,os
d,wt=sys.argv[1:3]; m=json.load(open(d+'/meta.json'))
for f,dst in m['demo_files'].items(): shutil.copy(os.path.join(d,f), os.path.join(wt,dst))
PY
    if eval "$CMD" >/tmp/seed_demo_patched.log 2>&1; then echo "validate: demo PASSES with patch: BAD" >> $RES.tmp; else echo "validate: demo FAILS with patch: ok" >> $RES.tmp; fi
  else
    echo "validate: patch does not apply: BAD" >> $RES.tmp
  fi
  git checkout -q -- . && git clean -fdq
fi
if [ "$MODE" = detect ] || [ "$MODE" = both ]; then
  cd /repo && git apply $D/patch.diff || { echo "detect: patch does not apply to /repo" >> $RES.tmp; }
  cd /verif
  for P in $PROPS; do
    OUT=$(./bin/verif check -prop $P -tier quick 2>/dev/null | grep "^VIOLATION" | sed 's/ detail=.*//' | sort -u | tr '\n' ';')
    if [ -n "$OUT" ]; then echo "detect: $P CAUGHT: $OUT" >> $RES.tmp; else echo "detect: $P missed" >> $RES.tmp; fi
  done
  git -C /repo checkout -- .
  rm -f /verif/replays/*
fi
cat $RES.tmp; mv $RES.tmp $RES
