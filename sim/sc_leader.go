package sim

import (
	"errors"
	"fmt"
	"sort"
	"strconv"
	"time"

	"github.com/asaskevich/EventBus"

	"github.com/Trendyol/go-dcp/kubernetes"
	"github.com/Trendyol/go-dcp/servicediscovery"
	"github.com/Trendyol/go-dcp/stream"

	"verif/journal"
)

// scGroupSD (C10, leader-assigned variant): one real servicediscovery.ServiceDiscovery per instance
// (heart-beat loop, monitor loop, SetInfo filter all real); the RPC clients between them and the
// Kubernetes lease election are simulated: a simClient call acts directly on the peer's ServiceDiscovery
// the way rpc_server.go's Handler does, and the "elector" runs the three callbacks of
// stream/leader_election.go on the instances.
type sdNode struct {
	id       int
	name     string
	joinTime int64
	sd       servicediscovery.ServiceDiscovery
	bus      *jbus
	alive    bool
	leader   bool
	m        *Member
	le       leaderCallbacks // the real stream.leaderElection (its OnBecomeLeader / OnResignLeader are used as they are)
}

type leaderCallbacks interface {
	OnBecomeLeader()
	OnResignLeader()
}

type scGroupSD struct {
	baseScn
	nodes     []*sdNode
	leader    *sdNode
	nextAt    int64
	judged    bool
	changes   int
	maxChange int
	maxLive   int
	quiet     time.Duration
	failPing  map[string]int // "from>to" -> number of calls that will fail
	failRebal map[string]int
	electAt   int64
	clients   []*simClient // every rpc client ever created, for link breaks
}

func init() {
	scenarios["C10sd"] = func() Scenario { return &scGroupSD{failPing: map[string]int{}, failRebal: map[string]int{}} }
}

type simClient struct {
	s         *scGroupSD
	w         *World
	from, to  *sdNode
	connected bool
}

var errSimRPC = errors.New("sim: rpc failed")

func (c *simClient) key() string { return fmt.Sprintf("%d>%d", c.from.id, c.to.id) }
func (c *simClient) Close() error {
	c.connected = false
	return nil
}
func (c *simClient) IsConnected() bool { return c.connected }
func (c *simClient) Reconnect() error {
	if !c.to.alive || !c.from.alive {
		return errSimRPC
	}
	c.connected = true
	return nil
}

func (c *simClient) Ping() error {
	w := c.w
	w.mu.Lock()
	defer w.mu.Unlock()
	if !c.from.alive {
		return errSimRPC // a dead process: whatever its left-over goroutines do has no effect
	}
	if !c.to.alive || !c.connected {
		return errSimRPC
	}
	if c.s.failPing[c.key()] > 0 {
		c.s.failPing[c.key()]--
		w.jl(&journal.Ev{K: journal.KFault, Vb: -1, S: "rpc-ping-failed", ID: c.key()})
		return errSimRPC
	}
	return nil
}

func (c *simClient) Register() error {
	w := c.w
	w.mu.Lock()
	if !c.from.alive || !c.to.alive {
		w.mu.Unlock()
		return errSimRPC
	}
	w.mu.Unlock()
	// Handler.Register: the leader creates a client towards the follower and adds it as a service
	back := &simClient{s: c.s, w: w, from: c.to, to: c.from, connected: true}
	c.s.clients = append(c.s.clients, back)
	c.to.sd.Add(servicediscovery.NewService(back, c.from.name, c.from.joinTime))
	w.jl(&journal.Ev{K: journal.KNote, Vb: -1, S: "registered", M: c.from.id, I: int64(c.to.id)})
	return nil
}

func (c *simClient) Rebalance(memberNumber int, totalMembers int) error {
	w := c.w
	w.mu.Lock()
	if !c.from.alive {
		w.mu.Unlock()
		return errSimRPC
	}
	if !c.to.alive || !c.connected {
		w.mu.Unlock()
		return errSimRPC
	}
	if c.s.failRebal[c.key()] > 0 {
		c.s.failRebal[c.key()]--
		w.jl(&journal.Ev{K: journal.KFault, Vb: -1, S: "rpc-rebalance-failed", ID: c.key()})
		w.mu.Unlock()
		return errSimRPC
	}
	w.mu.Unlock()
	c.to.sd.SetInfo(memberNumber, totalMembers) // Handler.Rebalance
	return nil
}

func (s *scGroupSD) Configure(w *World) {
	c, t := w.cfg, w.tape
	c.NVb, c.NNodes = 4, 1
	c.PreItems, c.MaxItems = 0, 0
	c.W.ExtWrite = 0
	c.Membership = "kubernetesHa"
	c.RebalanceDelay = Pick(t, []time.Duration{3001 * time.Millisecond, 20003 * time.Millisecond}, nil)
	// heart-beat and monitor rounds are every 5 s (fixed in the library); a change is visible to the leader
	// after one heart-beat round and to everybody after the next monitor round
	s.quiet = c.RebalanceDelay + 4*5*time.Second + time.Second
	c.Extra["quiet_ns"] = strconv.FormatInt(int64(s.quiet), 10)
	s.maxChange = 2 + t.Draw(5, nil)
	s.maxLive = 4
	if c.Tier == "thorough" {
		s.maxChange = 2 + t.Draw(9, nil)
		s.maxLive = 8
	}
	c.Faults = t.Draw(2, nil) == 0
	c.DelayFaults, c.BootFaults = false, false
	c.MaxSteps = 2500
	c.QuiesceBudget = s.quiet
	c.AdvEventMax = 5 * time.Second
	c.Advances = []time.Duration{time.Millisecond, 503 * time.Millisecond, 2003 * time.Millisecond}
	w.buildCluster()
}

func (s *scGroupSD) Boot(w *World) {
	n := s.join(w)
	s.becomeLeader(w, n)
}

func (s *scGroupSD) join(w *World) *sdNode {
	m := w.addMember()
	m.started = true
	n := &sdNode{id: m.id, name: fmt.Sprintf("pod-%d", m.id), joinTime: w.now(), alive: true, m: m}
	n.bus = &jbus{Bus: EventBus.New(), m: m}
	m.bus = n.bus
	w.jl(&journal.Ev{K: journal.KMember, M: m.id, Vb: -1, A: map[string]string{"membership": "kubernetesHa", "group": m.cfg.Dcp.Group.Name}})
	// dcp.go: NewServiceDiscovery, StartHeartbeat, StartMonitor, then the leader election
	n.sd = servicediscovery.NewServiceDiscovery(m.cfg, n.bus)
	n.le = stream.NewLeaderElection(m.cfg, n.sd, n.bus).(leaderCallbacks)
	n.sd.StartHeartbeat()
	n.sd.StartMonitor()
	ms := kubernetes.NewHaMembership(m.cfg, n.bus)
	go func() {
		info := ms.GetInfo()
		w.jl(&journal.Ev{K: journal.KRet, M: m.id, Vb: -1, S: "GetInfo", ID: fmt.Sprintf("j%d", m.id), I: int64(info.MemberNumber), U: uint64(info.TotalMembers)})
	}()
	s.nodes = append(s.nodes, n)
	s.changes++
	if s.leader != nil && s.leader.alive {
		s.becomeFollower(w, n, s.leader)
	}
	s.touch(w)
	return n
}

func (s *scGroupSD) touch(w *World) {
	s.nextAt = w.now() + int64(s.quiet)
	s.judged = false
}

// becomeLeader runs the real OnBecomeLeader of stream/leader_election.go; becomeFollower is the body of its
// OnBecomeFollower with the rpc dial replaced by a simClient.
func (s *scGroupSD) becomeLeader(w *World, n *sdNode) {
	w.jl(&journal.Ev{K: journal.KNote, Vb: -1, S: "leader", M: n.id})
	s.leader = n
	n.leader = true
	n.le.OnBecomeLeader()
}

func (s *scGroupSD) becomeFollower(w *World, n, leader *sdNode) {
	n.leader = false
	n.sd.DontBeLeader()
	n.sd.RemoveAll()
	n.sd.RemoveLeader()
	lc := &simClient{s: s, w: w, from: n, to: leader, connected: true}
	s.clients = append(s.clients, lc)
	n.sd.AssignLeader(servicediscovery.NewService(lc, leader.name, leader.joinTime))
	_ = lc.Register()
}

func (s *scGroupSD) liveOrder() []uint64 {
	var fol []*sdNode
	var out []uint64
	for _, n := range s.nodes {
		if n.alive && !n.leader {
			fol = append(fol, n)
		}
	}
	sort.Slice(fol, func(i, j int) bool { return fol[i].joinTime < fol[j].joinTime })
	if s.leader != nil && s.leader.alive {
		out = append(out, uint64(s.leader.id))
	}
	for _, n := range fol {
		out = append(out, uint64(n.id))
	}
	return out
}

func (s *scGroupSD) BeforeStep(w *World) {
	if s.electAt > 0 && w.now() >= s.electAt {
		s.electAt = 0
		// the lease expired: the oldest live instance wins the election, everybody observes the new leader
		var cand *sdNode
		for _, n := range s.nodes {
			if n.alive && (cand == nil || n.joinTime < cand.joinTime) {
				cand = n
			}
		}
		if cand != nil {
			// every instance observes the new lease holder on its own; the winner's own callback (which runs after a
			// Kubernetes label patch) may well come after the first registrations
			late := w.tape.Draw(2, nil) == 1
			if !late {
				s.becomeLeader(w, cand)
			} else {
				s.leader = cand
				w.probe("follower-registered-before-the-leader-callback")
			}
			for _, n := range s.nodes {
				if n.alive && n != cand {
					s.becomeFollower(w, n, cand)
				}
			}
			if late {
				s.becomeLeader(w, cand)
			}
		}
		s.touch(w)
	}
	if !s.judged && s.electAt == 0 && w.now() >= s.nextAt {
		s.judged = true
		w.jl(&journal.Ev{K: journal.KNote, Vb: -1, S: "stable", L: s.liveOrder()})
		if s.changes >= s.maxChange {
			w.done = true
		}
	}
}

func (s *scGroupSD) Actions(w *World) []Action {
	if !s.judged || s.changes >= s.maxChange || s.electAt > 0 {
		return nil
	}
	var acts []Action
	live := 0
	for _, n := range s.nodes {
		if n.alive {
			live++
		}
	}
	if live < s.maxLive && s.leader != nil && s.leader.alive {
		acts = append(acts, Action{ID: "join", W: 40, Do: func() { s.join(w) }})
	}
	for _, n := range s.nodes {
		n := n
		if !n.alive {
			continue
		}
		if n.leader {
			if live > 1 {
				acts = append(acts, Action{ID: fmt.Sprintf("leaderdie|m%d", n.id), W: 6, Do: func() {
					s.kill(w, n)
					s.electAt = w.now() + int64(time.Duration(1+w.tape.Draw(15, nil))*time.Second)
				}})
			}
			continue
		}
		acts = append(acts, Action{ID: fmt.Sprintf("die|m%d", n.id), W: 12, Do: func() { s.kill(w, n) }})
		acts = append(acts, Action{ID: fmt.Sprintf("leave|m%d", n.id), W: 8, Do: func() {
			// dcp.close(): StopMonitor, StopHeartbeat; then the process exits
			n.sd.StopMonitor()
			n.sd.StopHeartbeat()
			s.kill(w, n)
		}})
		if w.cfg.Faults {
			lk := fmt.Sprintf("%d>%d", s.leader.id, n.id)
			fk := fmt.Sprintf("%d>%d", n.id, s.leader.id)
			acts = append(acts, Action{ID: "pingfail|" + lk, W: 5, Do: func() { s.failPing[lk]++; s.changes++; s.touch(w) }})
			acts = append(acts, Action{ID: "pingfail|" + fk, W: 5, Do: func() { s.failPing[fk]++; s.changes++; s.touch(w) }})
			acts = append(acts, Action{ID: "rebalfail|" + lk, W: 5, Do: func() { s.failRebal[lk]++; s.changes++; s.touch(w) }})
			acts = append(acts, Action{ID: "linkbreak|" + lk, W: 6, Do: func() {
				// a network blip between two live processes: the rpc connections in both directions are dead until re-dialled
				w.mu.Lock()
				for _, cl := range s.clients {
					if cl.connected && (cl.from == n && cl.to == s.leader || cl.from == s.leader && cl.to == n) {
						cl.connected = false
					}
				}
				w.mu.Unlock()
				w.fault("rpc-link-broken", lk)
				s.changes++
				s.touch(w)
			}})
		}
	}
	return acts
}

func (s *scGroupSD) kill(w *World, n *sdNode) {
	w.mu.Lock()
	n.alive = false
	n.m.crashed = true
	w.mu.Unlock()
	w.jl(&journal.Ev{K: journal.KCrash, M: n.id, Vb: -1})
	w.fault("crash", fmt.Sprintf("m%d", n.id))
	s.changes++
	s.touch(w)
}

func (s *scGroupSD) AfterQuiesce(w *World) {
	if !s.judged && s.electAt == 0 && w.now() >= s.nextAt {
		w.jl(&journal.Ev{K: journal.KNote, Vb: -1, S: "stable", L: s.liveOrder()})
	}
}

func (s *scGroupSD) HoldClock(w *World) bool { return false }
