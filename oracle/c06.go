package oracle

import (
	"fmt"
	"strings"

	"verif/journal"
)

// C06 — every offset handed out or persisted is a valid, untorn DCP resume point.
//
// Reference model per stream: the announced snapshot of each emitted event and the history branch
// (failover[0] of the open response). The offset attached to a delivered event, the offset reported
// when it is acknowledged, every absorbed event's offset, and every written checkpoint must be the
// 4-tuple of ONE such event (or the session's loaded tuple), with snapStart <= seq <= snapEnd.
func init() { checkers["C06"] = checkC06 }

type tuple struct{ uuid, seq, ss, se uint64 }

func (t tuple) String() string {
	return fmt.Sprintf("{uuid=%d seq=%d snap=[%d,%d]}", t.uuid, t.seq, t.ss, t.se)
}

func offTuple(o *journal.Off) tuple { return tuple{o.UUID, o.Seq, o.Start, o.End} }

type c06vb struct {
	sid      string
	uuid     uint64
	mkS, mkE uint64
	haveMk   bool
	expected map[uint64]tuple // seqno -> tuple of the emitted event on the current stream
	handed   map[tuple]bool   // tuples legitimately in circulation (events handed out, loaded tuple)
	byEvent  map[string]tuple // consume event id -> its tuple
	inAck    string
	badSeq   map[uint64]bool // items emitted outside their announced snapshot
}

func checkC06(run *Run, res *Result) {
	if run.Cfg.Prop == "C15" {
		// the start-up scenario (checkpoints left by an earlier, well-behaved session; flushed / re-created vBuckets):
		// only "what the client asks the server for is a valid, untorn resume point" is judged here
		seeded := map[int]tuple{}
		asked := map[vbKey]bool{}
		for i := range run.Evs {
			e := &run.Evs[i]
			if e.K == journal.KKVW && e.S == "seed" && e.Off != nil {
				seeded[e.Vb] = offTuple(e.Off)
			}
			if e.K == journal.KSReq && e.Off != nil {
				// resumed mid-snapshot: the four fields of the stored resume point travel together
				if t, ok := seeded[e.Vb]; ok && e.U&0x80 != 0 && !asked[vbKey{e.M, e.Vb}] {
					asked[vbKey{e.M, e.Vb}] = true
					if got := offTuple(e.Off); got != t {
						res.violate("C06", "R4-stored-offset-not-handed-out", e.N, fmt.Sprintf("vb=%d", e.Vb),
							"member %d vb %d: the stored resume point is %s, the stream was requested with %s: the fields no longer stem from one event", e.M, e.Vb, t, got)
					}
					res.probe("resumed-from-stored-offset-judged")
				}
				if o := e.Off; o.Start > o.Seq || o.Seq > o.End {
					res.violate("C06", "R5-seq-outside-its-snapshot", e.N, fmt.Sprintf("vb=%d", e.Vb),
						"member %d vb %d: the stream request carries %s, which violates snapshotStart <= seqNo <= snapshotEnd", e.M, e.Vb, o)
				}
				res.probe("stream-request-offset-judged")
			}
		}
		return
	}
	st := map[vbKey]*c06vb{}
	get := func(k vbKey) *c06vb {
		if st[k] == nil {
			st[k] = &c06vb{expected: map[uint64]tuple{}, handed: map[tuple]bool{}, byEvent: map[string]tuple{}, badSeq: map[uint64]bool{}}
		}
		return st[k]
	}
	groupHanded := map[int]map[tuple]bool{} // vb -> tuples any member of the group legitimately held (restart loads them)
	gh := func(vb int) map[tuple]bool {
		if groupHanded[vb] == nil {
			groupHanded[vb] = map[tuple]bool{{0, 0, 0, 0}: true}
		}
		return groupHanded[vb]
	}
	badEmitted := 0
	stopping := map[int]bool{}
	badBy := map[int]int{}
	gone := map[int]bool{}
	// the tuples sessions were opened with (loaded from the store / auto-reset) are legitimate stored values;
	// a save may run before the stream request that reveals the loaded tuple has been answered, so collect them first
	for i := range run.Evs {
		e := &run.Evs[i]
		if e.K == journal.KSReq && e.Off != nil && e.U&0x80 != 0 {
			gh(e.Vb)[offTuple(e.Off)] = true
		}
	}
	valid := func(e *journal.Ev, what string, o *journal.Off) {
		if o.Start > o.Seq || o.Seq > o.End {
			res.violate("C06", "R5-seq-outside-its-snapshot", e.N, fmt.Sprintf("vb=%d", e.Vb),
				"member %d vb %d: %s carries %s, which violates snapshotStart <= seqNo <= snapshotEnd", e.M, e.Vb, what, o)
		}
	}
	for i := range run.Evs {
		e := &run.Evs[i]
		k := vbKey{e.M, e.Vb}
		switch e.K {
		case journal.KHandler:
			if e.S == "BeforeStreamStop" {
				stopping[e.M] = true
			}
			if e.S == "AfterStreamStart" {
				stopping[e.M] = false
			}
		case journal.KCrash:
			gone[e.M] = true
		case journal.KCall:
			if e.S == "Close" {
				stopping[e.M] = true
				gone[e.M] = true // an item still queued behind a slow consumer when the shutdown begins is never looked at
			}
		case journal.KReq:
			// the position a session loaded is "handed out" from the moment its stream request leaves the client:
			// with the file backend a Commit during the open phase writes every vBucket, also those whose
			// request the node has not answered yet
			if e.S == "CMD_DCPSTREAMREQ" && e.Off != nil && e.U&0x80 != 0 {
				gh(e.Vb)[offTuple(&journal.Off{UUID: e.Off.UUID, Seq: e.Off.Seq, Start: e.Off.Start, End: e.Off.End})] = true
			}
		case journal.KSReq:
			if e.S2 != "ok" || e.Off == nil {
				continue
			}
			v := get(k)
			v.sid = e.ID
			if len(e.L) >= 2 {
				v.uuid = e.L[0]
			}
			v.haveMk = false
			v.expected = map[uint64]tuple{}
			t := offTuple(e.Off)
			if e.U&0x80 == 0 {
				// a rollback re-request: the tracked position stays the loaded one
			} else {
				v.handed[t] = true
				gh(e.Vb)[t] = true
			}
		case journal.KEmit:
			v := st[k]
			if v == nil || v.sid != e.ID {
				continue
			}
			switch {
			case e.S == "marker":
				v.mkS, v.mkE, v.haveMk = e.U, e.U2, true
				if e.B {
					res.probe("scripted-bad-marker")
				}
			case e.S == "marker-omitted":
				v.haveMk = false
				res.probe("scripted-marker-omitted")
			case e.S == "seqadv":
				v.mkS, v.mkE, v.haveMk = e.Seq, e.Seq, true
				t := tuple{v.uuid, e.Seq, e.Seq, e.Seq}
				v.expected[e.Seq] = t
				res.probe("seqno-advanced-closing-snapshot")
			case e.S == "end":
			default:
				if !v.haveMk || e.Seq < v.mkS || e.Seq > v.mkE {
					v.badSeq[e.Seq] = true
					if stopping[e.M] {
						res.probe("out-of-snapshot-item-while-stopping") // the observers are closed already: the item is dropped, rightly
					} else {
						badEmitted++
						badBy[e.M]++
					}
					continue
				}
				v.expected[e.Seq] = tuple{v.uuid, e.Seq, v.mkS, v.mkE}
			}
		case journal.KConsume:
			if e.Off == nil {
				res.violate("C06", "R1-offset-missing", e.N, fmt.Sprintf("vb=%d", e.Vb), "member %d vb %d seq %d delivered without an offset", e.M, e.Vb, e.Seq)
				continue
			}
			v := get(k)
			if v.badSeq[e.Seq] {
				res.violate("C06", "R6-out-of-snapshot-event-delivered", e.N, fmt.Sprintf("vb=%d", e.Vb),
					"member %d vb %d: the server sent seqno %d outside its announced snapshot, and the event was delivered to the consumer (offset %s) instead of stopping the client", e.M, e.Vb, e.Seq, e.Off)
				continue
			}
			valid(e, "the delivered event's offset", e.Off)
			got := offTuple(e.Off)
			if want, ok := v.expected[e.Seq]; ok {
				if got != want {
					res.violate("C06", "R1-delivered-offset-wrong", e.N, fmt.Sprintf("vb=%d", e.Vb),
						"member %d vb %d seq %d: delivered with offset %s; the server announced %s for this event on this stream", e.M, e.Vb, e.Seq, got, want)
				}
				v.byEvent[e.ID] = want
				v.handed[want] = true
				gh(e.Vb)[want] = true
			}
			if e.Off.Start != e.Off.End {
				res.probe("multi-item-snapshot-offset")
			}
		case journal.KAck:
			get(k).inAck = e.ID
		case journal.KAckEnd:
			get(k).inAck = ""
		case journal.KTrack:
			if e.Off == nil {
				continue
			}
			v := get(k)
			valid(e, "the reported position", e.Off)
			got := offTuple(e.Off)
			if v.inAck != "" {
				want, ok := v.byEvent[v.inAck]
				if ok && got != want {
					sig := "plain"
					if got.seq == want.seq {
						sig = "same-seq-different-snapshot-or-branch"
					}
					res.violate("C06", "R2-acknowledged-offset-mutated", e.N, sig,
						"member %d vb %d: acknowledging the event delivered with %s reported the position %s: the offset is no longer that event's own (mixture of two events / snapshots / branches)", e.M, e.Vb, want, got)
				}
				if ok && want.se < v.mkE && v.haveMk && want.ss != v.mkS {
					res.probe("ack-of-event-from-older-snapshot")
				}
				continue
			}
			if want, ok := v.expected[e.Off.Seq]; ok {
				if got != want {
					res.violate("C06", "R3-absorbed-offset-wrong", e.N, fmt.Sprintf("vb=%d", e.Vb),
						"member %d vb %d: the stream event with seqno %d was absorbed with offset %s; the server announced %s", e.M, e.Vb, e.Off.Seq, got, want)
				}
				v.handed[want] = true
				gh(e.Vb)[want] = true
			}
		case journal.KKVW:
			if e.Off == nil || e.Vb < 0 || !isCkptKey(e.Key) {
				continue
			}
			if e.S == "seed" {
				gh(e.Vb)[offTuple(e.Off)] = true // left by an earlier session (the scenario's set-up)
				continue
			}
			valid(e, "the written checkpoint", e.Off)
			got := offTuple(e.Off)
			if !gh(e.Vb)[got] {
				res.violate("C06", "R4-stored-offset-not-handed-out", e.N, fmt.Sprintf("vb=%d", e.Vb),
					"member %d vb %d: checkpoint written with %s, which is not the offset of any single event handed out on this vBucket (nor the loaded one): torn or mixed resume point", e.M, e.Vb, got)
			}
			res.probe("stored-offset-judged")
		case journal.KDisk:
			if e.S != "write" {
				continue
			}
			for vb, o := range parseFileStore(e.Raw) {
				got := offTuple(o)
				if o.Start > o.Seq || o.Seq > o.End || !gh(vb)[got] {
					res.violate("C06", "R4-stored-offset-not-handed-out", e.N, fmt.Sprintf("vb=%d", vb),
						"vb %d: checkpoint file written with %s, which is not the offset of any single event handed out on this vBucket: torn or mixed resume point", vb, got)
				}
			}
		}
	}
	// R6: an out-of-snapshot server event stops the client
	if badEmitted > 0 {
		res.probe("out-of-snapshot-item-emitted")
		stayed := 0
		for m, n := range badBy {
			if n > 0 && !gone[m] {
				stayed++
			}
		}
		if !strings.Contains(res.FailStop, "seqNo not in snapshot") && run.Ended && stayed > 0 {
			res.violate("C06", "R6-out-of-snapshot-event-did-not-stop-client", len(run.Evs), "plain",
				"the server sent %d event(s) outside their announced snapshot and the client kept running through the quiesce phase (process death: %q)", badEmitted, res.FailStop)
		}
	}
}
