package oracle

import (
	"fmt"
	"sort"

	"verif/journal"
)

// C01 — the durable checkpoint never runs ahead of what the consumer settled.
//
// R1 (instant): every checkpoint written for (group, vb) names the writing session's resume position
//
//	or the seqno of an event acknowledged / absorbed before the write request arrived at the store.
//
// R2 (after a crash): the restarted member requests every vBucket from a position before its first
//
//	delivered-but-unacknowledged document event (cumulative acknowledgement semantics), and that
//	event is delivered again.
//
// R3: the restart's stream request equals the stored document field for field.
func init() { checkers["C01"] = checkC01 }

type c01vb struct {
	resume    uint64
	haveRes   bool
	settledN  map[uint64]int // seqno -> journal number at which it was settled (ack begun / absorbed)
	inAck     bool
	maxAcked  uint64
	anyAcked  bool
	delivered []uint64 // document events delivered in this incarnation, in order
	absorbed  map[uint64]bool
	sid       string
	absorbN   map[uint64]int
}

func checkC01(run *Run, res *Result) {
	cfg := &run.Cfg
	st := map[vbKey]*c01vb{}
	get := func(k vbKey) *c01vb {
		if st[k] == nil {
			st[k] = &c01vb{settledN: map[uint64]int{}, absorbed: map[uint64]bool{}, absorbN: map[uint64]int{}}
		}
		return st[k]
	}
	reqN := map[int64]int{}             // request arrival number -> journal number of its arrival
	storedDoc := map[int]*journal.Off{} // group-wide: vb -> last stored checkpoint
	type pendingCrash struct {
		firstUnsettled map[int]uint64 // vb -> seqno of the first delivered, unacknowledged document event
		overtakenBy    map[int]uint64 // vb -> absorbed seqno beyond it (history signature)
		n              int
		member         int
	}
	var crash *pendingCrash
	firstReqSeen := map[vbKey]bool{}
	lastMember := 0
	_ = lastMember
	anyStoredAtRestart := map[int]bool{}
	latestRestart := map[int]bool{}
	redelivered := map[int]map[uint64]bool{}
	for i := range run.Evs {
		e := &run.Evs[i]
		k := vbKey{e.M, e.Vb}
		switch e.K {
		case journal.KMember:
			lastMember = e.M
		case journal.KReq:
			reqN[e.I] = e.N
		case journal.KSReq:
			if e.Off == nil {
				continue
			}
			v := get(k)
			if e.S2 == "ok" {
				v.sid = e.ID
				if !v.haveRes {
					v.resume, v.haveRes = e.Off.Seq, true
				}
			}
			if !firstReqSeen[k] {
				firstReqSeen[k] = true
				// R3: the first request of an incarnation equals what is stored
				if sd, ok := storedDoc[e.Vb]; ok && !cfg.ReadOnly {
					if sd.UUID != e.Off.UUID || sd.Seq != e.Off.Seq || sd.Start != e.Off.Start || sd.End != e.Off.End {
						res.violate("C01", "R3-resume-differs-from-stored", e.N, fmt.Sprintf("vb=%d", e.Vb),
							"member %d vb %d: stream requested with %s but the stored checkpoint is %s", e.M, e.Vb, e.Off, sd)
					}
				}
				if _, seen := anyStoredAtRestart[e.M]; !seen {
					anyStoredAtRestart[e.M] = len(storedDoc) > 0
				}
				// with auto-reset 'latest' and no checkpoint at all, starting at the current high seqno is the documented behaviour
				latestNoDoc := cfg.AutoReset == "latest" && !anyStoredAtRestart[e.M]
				if latestNoDoc {
					latestRestart[e.M] = true
				}
				if crash != nil && e.M != crash.member && !latestNoDoc {
					if fu, ok := crash.firstUnsettled[e.Vb]; ok {
						res.probe("restart-after-crash-with-unacked-event")
						if e.Off.Seq >= fu {
							sig := "plain"
							if ob, ok := crash.overtakenBy[e.Vb]; ok && e.Off.Seq >= ob {
								sig = "absorbed-event-overtook-unacked-delivery"
							}
							res.violate("C01", "R2-resumed-past-unacknowledged-event", e.N, sig,
								"after the crash of member %d (event #%d), member %d requested vb %d from seqno %d, but the document event with seqno %d had been delivered and never acknowledged: it is skipped",
								crash.member, crash.n, e.M, e.Vb, e.Off.Seq, fu)
						}
					}
				}
			}
		case journal.KEmit:
			v := st[k]
			if v == nil || v.sid != e.ID {
				continue
			}
			if isAbsorbed(e) {
				v.absorbed[e.Seq] = true
			}
		case journal.KConsume:
			v := get(k)
			v.delivered = append(v.delivered, e.Seq)
			if crash != nil && e.M != crash.member {
				if redelivered[e.Vb] == nil {
					redelivered[e.Vb] = map[uint64]bool{}
				}
				redelivered[e.Vb][e.Seq] = true
			}
		case journal.KAck:
			v := get(k)
			v.inAck = true
			if _, ok := v.settledN[e.Seq]; !ok {
				v.settledN[e.Seq] = e.N
			}
			if !v.anyAcked || e.Seq > v.maxAcked {
				v.maxAcked, v.anyAcked = e.Seq, true
			}
		case journal.KAckEnd:
			get(k).inAck = false
		case journal.KTrack:
			if e.Off == nil {
				continue
			}
			v := get(k)
			if !v.inAck && v.absorbed[e.Off.Seq] {
				if _, ok := v.settledN[e.Off.Seq]; !ok {
					v.settledN[e.Off.Seq] = e.N
					v.absorbN[e.Off.Seq] = e.N
				}
			}
		case journal.KKVW:
			if e.Off == nil || e.Vb < 0 || !isCkptKey(e.Key) {
				continue
			}
			storedDoc[e.Vb] = e.Off
			v := st[k]
			if v == nil || !v.haveRes {
				continue
			}
			arrN, ok := reqN[int64(e.U2)]
			if !ok {
				arrN = e.N
			}
			okSeq := e.Off.Seq == v.resume
			if n, ok := v.settledN[e.Off.Seq]; ok && n < arrN {
				okSeq = true
			}
			res.probe("checkpoint-write-judged")
			if !okSeq {
				res.violate("C01", "R1-checkpoint-ahead-of-settled", e.N, fmt.Sprintf("vb=%d", e.Vb),
					"member %d vb %d: checkpoint written with seqno %d, which is neither the session's resume position (%d) nor an event acknowledged or absorbed before the write request arrived (event #%d)",
					e.M, e.Vb, e.Off.Seq, v.resume, arrN)
			}
		case journal.KDisk:
			if e.S != "write" && e.S != "chunk" && e.S != "trunc" && e.S != "write-short" {
				continue
			}
			img := parseFileStore(e.Raw)
			for vb := range storedDoc {
				delete(storedDoc, vb)
			}
			for vb, o := range img {
				storedDoc[vb] = o
			}
			if e.S != "write" {
				res.probe("torn-file-image")
				continue
			}
			// the writing member: the (single) live one
			for kk, v := range st {
				o, ok := img[kk.vb]
				if !ok || !v.haveRes || kk.m != e.M {
					continue
				}
				okSeq := o.Seq == v.resume
				if n, ok := v.settledN[o.Seq]; ok && n < e.N {
					okSeq = true
				}
				if !okSeq {
					res.violate("C01", "R1-checkpoint-ahead-of-settled", e.N, fmt.Sprintf("vb=%d", kk.vb),
						"member %d vb %d: checkpoint file written with seqno %d, which is neither the resume position (%d) nor a settled event", kk.m, kk.vb, o.Seq, v.resume)
				}
			}
		case journal.KCrash:
			pc := &pendingCrash{firstUnsettled: map[int]uint64{}, overtakenBy: map[int]uint64{}, n: e.N, member: e.M}
			unacked := 0
			for kk, v := range st {
				if kk.m != e.M {
					continue
				}
				for _, s := range v.delivered {
					if !v.anyAcked || s > v.maxAcked {
						if cur, ok := pc.firstUnsettled[kk.vb]; !ok || s < cur {
							pc.firstUnsettled[kk.vb] = s
						}
					}
				}
				if fu, ok := pc.firstUnsettled[kk.vb]; ok {
					unacked++
					var abs []uint64
					for s := range v.absorbN {
						if s > fu {
							abs = append(abs, s)
						}
					}
					sort.Slice(abs, func(i, j int) bool { return abs[i] < abs[j] })
					if len(abs) > 0 {
						pc.overtakenBy[kk.vb] = abs[0]
						res.probe("absorbed-event-while-earlier-delivery-unacked")
					}
				}
			}
			if unacked > 0 {
				res.probe("crash-with-unacked-delivery")
			}
			crash = pc
			redelivered = map[int]map[uint64]bool{}
		}
	}
	// R2b: the skipped-or-not question also has a positive side: the unacknowledged event is delivered again.
	if crash != nil && run.Ended {
		var vbs []int
		for vb := range crash.firstUnsettled {
			vbs = append(vbs, vb)
		}
		sort.Ints(vbs)
		restarted := false
		for kk := range firstReqSeen {
			if kk.m != crash.member && !latestRestart[kk.m] {
				restarted = true
			}
		}
		for _, vb := range vbs {
			if restarted && !redelivered[vb][crash.firstUnsettled[vb]] {
				sig := "plain"
				if _, ok := crash.overtakenBy[vb]; ok {
					sig = "absorbed-event-overtook-unacked-delivery"
				}
				res.violate("C01", "R2b-unacknowledged-event-not-redelivered", len(run.Evs), sig,
					"after the crash of member %d, the restarted member never delivered vb %d seqno %d again, although it had been delivered and not acknowledged before the crash",
					crash.member, vb, crash.firstUnsettled[vb])
			}
		}
	}
}
