// Package oracle holds the history checkers: pure functions over the journal of one simulated run.
// Each replays the journal against a small sequential reference model of what the property promises
// and reports every disagreement as (property, rule, detail). Rules are named; minimisation preserves
// the rule, the known-findings file matches on it, the evidence counts it.
package oracle

import (
	"encoding/json"
	"fmt"
	"regexp"
	"sort"
	"strings"

	"verif/journal"
)

type Violation struct {
	Prop   string `json:"property"`
	Rule   string `json:"rule"`
	Detail string `json:"detail"`
	N      int    `json:"event"`     // journal event number where it was detected
	Sig    string `json:"signature"` // history signature (for known-findings matching)
}

// Run is everything the supervisor knows about one finished worker process.
type Run struct {
	Prop     string
	Evs      []journal.Ev
	ExitCode int
	Stderr   string
	Hung     bool
	Cfg      Cfg
	Ended    bool // journal has the end event (run completed normally)
}

// Cfg mirrors the fields of the worker's scenario configuration the oracles need.
type Cfg struct {
	Prop, Tier, Variant    string
	NVb, NNodes, NReplicas int
	Bucket, MetaBucket     string
	CollectionNames        []string
	ScopeName              string
	SkipUntilSec           int64
	SkipUntil              bool
	Group                  string
	Membership             string
	MemberNumber           int
	TotalMembers           int
	RebalanceDelay         int64
	DcpMode                string
	RM                     bool
	RMInterval             int64
	HealthCheck            bool
	CkptType               string
	AutoReset              string
	CkptInterval           int64
	CkptTimeout            int64
	Metadata               string
	ReadOnly               bool
	ConsumerMode           string
	Faults                 bool
	QuiesceBudget          int64
	Version                [3]int
	Extra                  map[string]string
}

type Result struct {
	Violations []Violation
	Probes     map[string]int
	Faults     map[string]int
	FailStop   string // classified process death ("" if none)
	DeathKind  string // "", expected, library-failstop, runtime-panic, harness
	Steps      int
	SimTimeNs  int64
	TraceHash  string
	States     []string // abstract states visited (hashed by the supervisor)
	Events     int
}

func (r *Result) probe(name string) { r.Probes[name]++ }

func (r *Result) violate(prop, rule string, n int, sig string, f string, a ...any) {
	r.Violations = append(r.Violations, Violation{Prop: prop, Rule: prop + "/" + rule, Detail: fmt.Sprintf(f, a...), N: n, Sig: sig})
}

type checker func(run *Run, res *Result)

var checkers = map[string]checker{}

// Properties lists the property ids that have a checker.
func Properties() []string {
	var out []string
	for k := range checkers {
		out = append(out, k)
	}
	sort.Strings(out)
	return out
}

var (
	rePanic    = regexp.MustCompile(`(?m)^panic: (.*)$`)
	reGoexit   = regexp.MustCompile(`(?m)^fatal error: (.*)$`)
	reFrame    = regexp.MustCompile(`(?m)^([a-zA-Z0-9_./\-]+(?:\(\*?[A-Za-z0-9_]+\))?[.A-Za-z0-9_]*)\(`)
	reDigits   = regexp.MustCompile(`[0-9]+`)
	reHexBlock = regexp.MustCompile(`0x[0-9a-f]+`)
)

// classifyDeath reads the worker's stderr after a non-zero exit.
func classifyDeath(run *Run, res *Result) {
	if run.ExitCode == 0 && !run.Hung {
		return
	}
	if run.Hung {
		res.DeathKind, res.FailStop = "hang", "worker exceeded its wall-clock limit"
		return
	}
	if strings.Contains(run.Stderr, "SIMHARNESS:") || run.ExitCode == 3 {
		res.DeathKind = "harness"
		i := strings.Index(run.Stderr, "SIMHARNESS:")
		if i >= 0 {
			res.FailStop = firstLine(run.Stderr[i:])
		} else {
			res.FailStop = fmt.Sprintf("exit %d", run.ExitCode)
		}
		return
	}
	msg := ""
	if m := rePanic.FindStringSubmatch(run.Stderr); m != nil {
		msg = m[1]
	} else if m := reGoexit.FindStringSubmatch(run.Stderr); m != nil {
		msg = "fatal error: " + m[1]
	}
	res.FailStop = msg
	// top frames: the first few function names after the panic line
	frames := topFrames(run.Stderr, 8)
	runtimeErr := strings.Contains(msg, "runtime error") || strings.HasPrefix(msg, "fatal error") ||
		strings.Contains(msg, "close of closed channel") || strings.Contains(msg, "send on closed channel") ||
		strings.Contains(msg, "unlock of unlocked") || strings.Contains(msg, "all goroutines in bubble are blocked") ||
		strings.Contains(msg, "negative WaitGroup counter") || strings.Contains(msg, "WaitGroup is reused")
	firstPkg := ""
	for _, f := range frames {
		if strings.HasPrefix(f, "panic") || strings.HasPrefix(f, "runtime.") || strings.HasPrefix(f, "sync.") || strings.HasPrefix(f, "internal/") || strings.HasPrefix(f, "testing.") {
			continue
		}
		firstPkg = f
		break
	}
	switch {
	case strings.HasPrefix(firstPkg, "verif/sim") && !strings.Contains(msg, "[recovered]"):
		res.DeathKind = "harness"
	case runtimeErr:
		res.DeathKind = "runtime-panic"
	default:
		res.DeathKind = "library-failstop"
	}
	// did the scenario declare this fail-stop legitimate beforehand?
	for i := range run.Evs {
		e := &run.Evs[i]
		if e.K == journal.KExpect && strings.Contains(msg, e.S) { // an empty S declares any deliberate fail-stop legitimate from here on
			res.DeathKind = "expected"
		}
	}
	res.FailStop = normMsg(msg) + " @ " + firstPkg
}

// normMsg cuts a panic message down to its stable part (gocbcore errors carry a JSON blob with random ids).
func normMsg(m string) string {
	if i := strings.Index(m, " | "); i >= 0 {
		m = m[:i]
	}
	if i := strings.Index(m, " [recovered]"); i >= 0 {
		m = m[:i]
	}
	if len(m) > 160 {
		m = m[:160]
	}
	return reDigits.ReplaceAllString(m, "N")
}

func firstLine(s string) string {
	if i := strings.IndexByte(s, '\n'); i >= 0 {
		return s[:i]
	}
	return s
}

func topFrames(stderr string, n int) []string {
	i := strings.Index(stderr, "\ngoroutine ")
	if i < 0 {
		return nil
	}
	var out []string
	for _, m := range reFrame.FindAllStringSubmatch(stderr[i:], n*3) {
		out = append(out, m[1])
		if len(out) >= n {
			break
		}
	}
	return out
}

// Check runs the property's checker plus the common bookkeeping.
func Check(run *Run) *Result {
	res := &Result{Probes: map[string]int{}, Faults: map[string]int{}}
	var kinds []string
	for i := range run.Evs {
		e := &run.Evs[i]
		switch e.K {
		case "cfg":
			_ = json.Unmarshal(e.Raw, &run.Cfg)
		case journal.KStep:
			res.Steps++
			kinds = append(kinds, abstractAction(e.ID))
		case journal.KFault:
			res.Faults[e.S]++
		case journal.KProbe:
			res.Probes[e.S]++
		case journal.KEnd:
			run.Ended = true
		}
		if e.T > res.SimTimeNs {
			res.SimTimeNs = e.T
		}
	}
	res.Events = len(run.Evs)
	res.TraceHash = strings.Join(kinds, ",")
	res.States = stepEffects(run.Evs)
	classifyDeath(run, res)
	if res.DeathKind == "harness" || res.DeathKind == "hang" {
		return res
	}
	if c, ok := checkers[run.Prop]; ok {
		c(run, res)
	}
	return res
}

// abstractAction canonicalises an action id to its kind (identities of vBuckets, keys, members dropped).
func abstractAction(id string) string {
	parts := strings.Split(id, "|")
	switch parts[0] {
	case "reply", "replyerr":
		if parts[0] == "replyerr" && len(parts) > 3 {
			return "replyerr:" + parts[1] + ":" + parts[3]
		}
		if len(parts) > 2 {
			return "reply:" + parts[2]
		}
	case "q":
		if len(parts) > 1 {
			return "q:" + parts[1]
		}
	case "adv", "ack":
		if len(parts) > 1 {
			return parts[0] + ":" + parts[1]
		}
	}
	return parts[0]
}

func keyStr(b []byte) string {
	for _, x := range b {
		if x < 0x20 || x > 0x7e {
			return fmt.Sprintf("0x%x", b)
		}
	}
	return string(b)
}

const (
	connPrefix = "_connector:cbgo:"
	txnPrefix  = "_txn:"
)

func isInternalKey(k []byte) bool {
	return strings.HasPrefix(string(k), connPrefix) || strings.HasPrefix(string(k), txnPrefix)
}

func isDocKind(k string) bool { return k == "mut" || k == "del" || k == "exp" }

// stepEffects is the "distinct states" measure of the evidence: one abstract state per scheduler step =
// the kind of the chosen action together with the set of kinds of things the system did in response
// during that step (requests sent, writes applied, events delivered, callbacks, calls returned, ...),
// identities dropped. Two runs reach the same abstract state when the same stimulus had the same kind of effect.
func stepEffects(evs []journal.Ev) []string {
	var out []string
	cur := -1
	act := ""
	eff := map[string]bool{}
	flush := func() {
		if cur < 0 {
			return
		}
		ks := make([]string, 0, len(eff))
		for k := range eff {
			ks = append(ks, k)
		}
		sort.Strings(ks)
		out = append(out, act+" => "+strings.Join(ks, " "))
	}
	for i := range evs {
		e := &evs[i]
		if e.K == "d" || e.K == "cfg" {
			continue
		}
		if e.St != cur {
			flush()
			cur, act, eff = e.St, "", map[string]bool{}
		}
		switch e.K {
		case journal.KStep:
			act = abstractAction(e.ID)
		case journal.KReq, journal.KRsp:
			eff[e.K+":"+e.S+":"+e.S2] = true
		case journal.KHandler, journal.KCall, journal.KRet, journal.KEmit, journal.KConsume, journal.KFault, journal.KDisk:
			eff[e.K+":"+e.S] = true
		default:
			eff[e.K] = true
		}
	}
	flush()
	return out
}

// preemptedWaitSig: the run armed the pre-emption points inside stream.wait() (right after it received a finish
// token, before it acts on it - a place where go-dcp's goroutine is normally not descheduled) and some
// goroutine was actually parked there. While it is parked, Close() can still see the "finished with end
// event" flag unset and emit the second token, or a zero-delay rebalance can reopen the stream: the stale
// token / flag then stops, kills or wedges the next session (hypothesis H6, confirmed). Violations of the listed
// rules in such runs carry this signature (a known finding); in all other runs they stay "plain".
const preemptedWaitSig = "wait-goroutine-preempted-around-its-finish-token"

func markPreemptedWait(run *Run, res *Result, rules ...string) {
	parked := false
	for k := range res.Probes {
		if strings.HasPrefix(k, "parked-at:stream.wait") {
			parked = true
		}
	}
	if !parked {
		return
	}
	for i := range res.Violations {
		v := &res.Violations[i]
		if v.Sig != "plain" {
			continue
		}
		for _, r := range rules {
			if v.Rule == r {
				v.Sig = preemptedWaitSig
			}
		}
	}
}

// sortedKeys returns the int keys of a map in ascending order (checkers must not depend on map order).
func sortedKeys[V any](m map[int]V) []int {
	ks := make([]int, 0, len(m))
	for k := range m {
		ks = append(ks, k)
	}
	sort.Ints(ks)
	return ks
}
