package sim

import (
	"fmt"
	"time"

	"github.com/couchbase/gocbcore/v10/memd"

	"verif/journal"
)

// scEnds (C12): the node ends streams with every status and by dropping DCP connections, on any
// subset of vBuckets in any order, repeatedly, while others keep streaming; finite and infinite mode;
// re-open replies normal or failing a bounded number of times.
type scEnds struct {
	baseScn
	reopenFails map[int]int // vb -> consecutive re-open failures injected so far
	failBudget  map[int]int // vb -> how many consecutive failures this vb's re-open will see
	endsDone    int
	maxEnds     int
}

func init() {
	scenarios["C12"] = func() Scenario { return &scEnds{reopenFails: map[int]int{}, failBudget: map[int]int{}} }
}

var endStatuses = []struct {
	name   string
	status int
}{{"ok", 0}, {"closed", 1}, {"state-changed", 2}, {"disconnected", 3}, {"too-slow", 4}, {"backfill-failed", 5}, {"filter-empty", 7}, {"unknown", 9}}

func (s *scEnds) Configure(w *World) {
	c, t := w.cfg, w.tape
	c.NVb = 2 + t.Draw(5, nil)
	c.NNodes = 1 + t.Draw(2, nil)
	c.MaxItems = 4 + t.Draw(10, nil)
	c.PreItems = 1 + t.Draw(5, nil)
	c.DcpMode = Pick(t, []string{"infinite", "finite"}, []int{3, 2})
	c.ConsumerMode = Pick(t, []string{"deferred", "immediate"}, []int{2, 1})
	c.CkptInterval = time.Duration(501+200*t.Draw(5, nil)) * time.Millisecond
	c.W.EndStream, c.W.ConnDrop, c.W.Scrape = 2, 1, 1
	c.W.ReplyErr = 0
	if t.Draw(3, nil) == 0 {
		c.W.ReplyErr = 3 // failing re-opens
	}
	if t.Draw(4, nil) == 0 {
		// the goroutine that waits for the session's finish token is pre-empted right after it received one
		c.YieldSites = map[string]bool{"stream.wait.close-token": true, "stream.wait.end-token": true}
	}
	s.maxEnds = 2 + t.Draw(3*c.NVb, nil)
	if t.Draw(3, nil) == 0 {
		// filtered collection: snapshot tails are closed by seqno-advanced, whose offset is what a re-open starts from
		c.ScopeName, c.CollectionNames, c.Collections = "s1", []string{"c1"}, []uint32{8, 8, 9}
	}
	c.QuiesceBudget = 40 * time.Second
	c.AdvEventMax = 2 * time.Second
	w.buildCluster()
	w.cl.collections["s1.c1"] = 8
	w.cl.collections["s1.c2"] = 9
	c.Extra["coll:8"], c.Extra["coll:9"] = "c1", "c2"
}

func (s *scEnds) MayDrop(w *World, c *Conn) bool {
	return c.role == "d" && s.endsDone < s.maxEnds && len(c.streams) > 0 && w.ready1()
}
func (s *scEnds) MayStall(w *World, c *Conn) bool { return false }

func (w *World) ready1() bool {
	for _, m := range w.members {
		if m.ready && !m.stopped && !m.closing {
			return true
		}
	}
	return false
}

// ErrVariants: a re-open (a stream request after the member became ready) may fail.
func (s *scEnds) ErrVariants(w *World, q *Req) []replyVariant {
	if q.pkt.Command != memd.CmdDcpStreamReq || !w.ready1() {
		return nil
	}
	vb := int(q.pkt.Vbucket)
	if _, ok := s.failBudget[vb]; !ok {
		s.failBudget[vb] = 1 + w.tape.Draw(6, []int{4, 3, 2, 2, 1, 1})
	}
	if s.reopenFails[vb] >= s.failBudget[vb] {
		return nil
	}
	return []replyVariant{{name: "reopen-fail", status: memd.StatusInternalError}}
}

func (s *scEnds) ReplyWeight(w *World, q *Req) (int, bool) { return 0, false }

func (s *scEnds) Actions(w *World) []Action {
	var acts []Action
	opening := false
	for _, m := range w.members {
		if m.started && !m.ready && !m.crashed && m.phase == "opening" {
			opening = true // Open() is still requesting streams: an already open one may end meanwhile
		}
	}
	if !(w.ready1() || opening) || s.endsDone >= s.maxEnds {
		return nil
	}
	w.mu.Lock()
	streams := w.sortedStreams()
	w.mu.Unlock()
	for _, st := range streams {
		st := st
		if !st.open {
			continue
		}
		for _, es := range endStatuses {
			es := es
			if opening && !w.ready1() && (es.name == "ok" || es.name == "closed" || es.name == "filter-empty" || es.name == "unknown") {
				continue // during Open() only the re-openable causes are injected
			}
			acts = append(acts, Action{ID: fmt.Sprintf("end|%s|%s", es.name, st.sid), W: w.cfg.W.EndStream, Do: func() {
				if !w.ready1() {
					w.probe("end-during-open")
				}
				s.endsDone++
				w.fault("end:"+es.name, st.sid)
				w.mu.Lock()
				if es.name == "state-changed" && w.tape.Draw(2, nil) == 1 {
					// the reason a real server gives this status: the vBucket was failed over. New branch from the
					// current high seqno (nothing lost); the re-opened stream reports the new vbUUID.
					v := st.conn.bucket.vbs[st.vb]
					nu := v.failover[0].UUID + 100000
					v.failover = append([]FEntry{{UUID: nu, Seq: v.high}}, v.failover...)
					for i := range v.copies {
						v.copies[i].UUID = nu
					}
					w.jl(&journal.Ev{K: journal.KNote, Vb: st.vb, S: "failover", U: nu, Seq: v.high})
					w.faultsFired["failover"]++
				}
				st.endStat = es.status
				w.cl.emitEnd(st)
				w.mu.Unlock()
			}})
		}
	}
	return acts
}

func (s *scEnds) MemberActions(w *World, m *Member) []Action {
	if !m.ready || m.stopped || m.closing || m.scraping {
		return nil
	}
	return []Action{{ID: fmt.Sprintf("scrape|m%d", m.id), W: w.cfg.W.Scrape, Do: func() { m.scrape() }}}
}

// BeforeStep: count injected re-open failures (the fault journal carries them) and declare the expected fail-stop.
func (s *scEnds) BeforeStep(w *World) {
	if w.cfg.W.ReplyErr == 0 || !w.ready1() {
		return
	}
	// a vBucket drawn to see five or more consecutive re-open failures gets them one after the other
	w.mu.Lock()
	var hit *Req
	for _, c := range w.sortedConns() {
		for _, q := range headBatch(c) {
			vb := int(q.pkt.Vbucket)
			if q.pkt.Command == memd.CmdDcpStreamReq && s.failBudget[vb] >= 5 && s.reopenFails[vb] < s.failBudget[vb] && s.reopenFails[vb] > 0 {
				hit = q
			}
		}
	}
	w.mu.Unlock()
	if hit != nil {
		w.release(hit, replyVariant{name: "reopen-fail", status: memd.StatusInternalError})
	}
}

func (w *World) noteReopenFail(vb int, s *scEnds) {
	s.reopenFails[vb]++
	if s.reopenFails[vb] >= 5 {
		w.jl(&journal.Ev{K: journal.KExpect, Vb: vb, S: ""})
	}
}
