package oracle

import (
	"encoding/json"
	"fmt"
	"strconv"
	"strings"

	"verif/journal"
)

// C04 — tracked position only moves forward and equals the furthest settled event.
//
// Reference model per (member, vBucket): pos = max(resume position, settled seqnos so far), where an
// event is settled by an Ack (document events) or by being absorbed (system / seqno-advanced /
// internal-key events). Every TrackOffset report must be explained by exactly one such cause and
// equal the model; the offsets API, the seq gauge and written checkpoints are compared with pos.
func init() { checkers["C04"] = checkC04 }

type vbKey struct{ m, vb int }

type c04vb struct {
	pos       uint64
	havePos   bool
	lastTrack uint64
	tracked   bool
	absorb    []uint64 // seqnos of emitted events the library absorbs itself, in order
	sid       string
	inAck     bool
	ackSeq    uint64
	ackTrack  bool
	history   map[uint64]bool
	posBefore uint64
}

func isAbsorbed(e *journal.Ev) bool {
	if e.S == "seqadv" || strings.HasPrefix(e.S, "sys:") {
		return true
	}
	return isDocKind(e.S) && isInternalKey(e.Key)
}

func checkC04(run *Run, res *Result) {
	st := map[vbKey]*c04vb{}
	get := func(k vbKey) *c04vb {
		if st[k] == nil {
			st[k] = &c04vb{history: map[uint64]bool{}}
		}
		return st[k]
	}
	cfg := &run.Cfg
	lastInfo := map[int][2]int{} // member -> last published membership
	prevHist := map[vbKey]map[uint64]bool{}
	stopT := map[int]int64{}
	loaded := map[int]bool{}           // member -> the session's offsets have been loaded (first stream request seen)
	assigned := map[int]map[int]bool{} // member -> vBuckets of the range the current session was opened on
	open := map[int]bool{}             // member -> between AfterStreamStart and BeforeStreamStop
	outOfRangeAcked := map[vbKey]int{} // ack on a vb outside the current range (event number)
	// file backend (every save writes every vBucket): member -> vb -> tracked position when the previous save of the
	// session wrote the file; the next save took its dump after that and cannot write anything older
	posAtLastFileWrite := map[int]map[int]uint64{}
	for i := range run.Evs {
		e := &run.Evs[i]
		k := vbKey{e.M, e.Vb}
		switch e.K {
		case journal.KHandler:
			switch e.S {
			case "BeforeStreamStart":
				assigned[e.M] = map[int]bool{}
				n, t := cfg.MemberNumber, cfg.TotalMembers
				if li, ok := lastInfo[e.M]; ok {
					n, t = li[0], li[1]
				}
				if t >= 1 && n >= 1 && n <= t {
					lo, hi := partition(cfg.NVb, t, n)
					for vb := lo; vb <= hi; vb++ {
						assigned[e.M][vb] = true
					}
				}
				for kk, v := range st {
					if kk.m == e.M {
						prevHist[kk] = v.history // a save dumped in the old session may still be on its way to the store
						delete(st, kk)
					}
				}
				loaded[e.M] = false
				delete(posAtLastFileWrite, e.M)
			case "BeforeStreamStop":
				open[e.M] = false
				stopT[e.M] = e.T
			}
		case journal.KPublish:
			lastInfo[e.M] = [2]int{int(e.I), int(e.U)}
		case journal.KReq:
			if e.S != "CMD_DCPSTREAMREQ" {
				continue
			}
			if !loaded[e.M] {
				// the session's offsets are in place from here on (Load precedes the first stream request)
				loaded[e.M], open[e.M] = true, true
			}
			if e.Off != nil && e.U&0x80 != 0 {
				if v := get(k); !v.havePos {
					v.pos, v.havePos = e.Off.Seq, true // the resume position the session loaded
					v.history[v.pos] = true
				}
			}
		case journal.KSReq:
			if e.S2 != "ok" || e.Off == nil {
				continue
			}
			v := get(k)
			v.sid = e.ID
			v.absorb = nil
			if !v.havePos {
				v.pos, v.havePos = e.Off.Seq, true
				v.history[v.pos] = true
			}
		case journal.KEmit:
			v := st[k]
			if v == nil || e.ID != v.sid {
				continue
			}
			if isAbsorbed(e) {
				v.absorb = append(v.absorb, e.Seq)
			}
		case journal.KAck:
			if !open[e.M] {
				continue // closed window: the assigned range is undefined there
			}
			if !assigned[e.M][e.Vb] {
				outOfRangeAcked[k] = e.N
				res.probe("ack-outside-range")
				continue
			}
			v := get(k)
			v.inAck, v.ackSeq, v.ackTrack = true, e.Seq, false
			v.posBefore = v.pos
			if e.Seq < v.pos {
				res.probe("stale-ack")
			} else if e.Seq == v.pos && v.tracked {
				res.probe("repeated-ack")
			}
			if e.B {
				res.probe("ack-from-previous-session")
			}
		case journal.KAckEnd:
			v := st[k]
			if v == nil || !v.inAck {
				continue
			}
			v.inAck = false
			if v.ackSeq > v.posBefore {
				v.pos = v.ackSeq
				v.history[v.pos] = true
				if !v.ackTrack {
					res.violate("C04", "R3-ack-not-reflected", e.N, fmt.Sprintf("vb=%d", e.Vb),
						"member %d vb %d: Ack(seq=%d) above the tracked position %d returned without the position being reported", e.M, e.Vb, v.ackSeq, v.posBefore)
				}
			}
		case journal.KTrack:
			if e.Off == nil {
				continue
			}
			if _, bad := outOfRangeAcked[k]; bad && open[e.M] && !assigned[e.M][e.Vb] && prevHist[k][e.Off.Seq] && e.T-stopT[e.M] <= cfg.CkptTimeout+int64(1e9) {
				// a save that took its dump while the member still owned the vBucket (previous session) is completing
				res.probe("save-in-flight-across-sessions")
				continue
			}
			if n, bad := outOfRangeAcked[k]; bad && open[e.M] && !assigned[e.M][e.Vb] {
				res.violate("C04", "R5-out-of-range-ack-tracked", e.N, fmt.Sprintf("vb=%d", e.Vb),
					"member %d: an acknowledgement for vb %d outside the assigned range (event #%d) moved the tracked position to %d", e.M, e.Vb, n, e.Off.Seq)
				continue
			}
			if !open[e.M] {
				continue // closed window (rebalance delay, shutdown): the assigned range is undefined there
			}
			v := get(k)
			seq := e.Off.Seq
			if v.tracked && seq < v.lastTrack {
				res.violate("C04", "R2-moved-backwards", e.N, fmt.Sprintf("vb=%d", e.Vb),
					"member %d vb %d: tracked position reported %d after %d", e.M, e.Vb, seq, v.lastTrack)
			}
			explained := false
			if v.inAck && seq == v.ackSeq {
				explained = true
				v.ackTrack = true
			} else {
				for j, s := range v.absorb {
					if s == seq {
						v.absorb = v.absorb[j+1:]
						explained = true
						res.probe("absorbed-event-tracked")
						break
					}
				}
			}
			if !explained {
				res.violate("C04", "R1-unexplained-position", e.N, fmt.Sprintf("vb=%d", e.Vb),
					"member %d vb %d: tracked position reported %d, which is neither the event being acknowledged nor the next absorbed stream event (model position %d)", e.M, e.Vb, seq, v.pos)
			}
			if v.havePos && seq < v.pos {
				res.violate("C04", "R2-moved-backwards", e.N, fmt.Sprintf("vb=%d", e.Vb),
					"member %d vb %d: tracked position reported %d below the furthest settled position %d", e.M, e.Vb, seq, v.pos)
			}
			if seq > v.pos || !v.havePos {
				v.pos, v.havePos = seq, true
				v.history[seq] = true
			}
			v.lastTrack, v.tracked = seq, true
		case journal.KAPI:
			if !strings.HasPrefix(e.S, "GET /states/offset") || e.I != 200 || !strings.HasPrefix(e.S2, "{") || !open[e.M] {
				continue
			}
			var body map[string]struct{ SeqNo uint64 }
			if err := json.Unmarshal([]byte(e.S2), &body); err != nil {
				continue
			}
			res.probe("offsets-api-compared")
			for vbs, o := range body {
				vb, _ := strconv.Atoi(vbs)
				v := st[vbKey{e.M, vb}]
				if v == nil || !v.havePos || v.inAck {
					continue
				}
				if o.SeqNo != v.pos {
					res.violate("C04", "R4-api-disagrees", e.N, fmt.Sprintf("vb=%d", vb),
						"member %d vb %d: GET /states/offset says seqNo %d, furthest settled position is %d", e.M, vb, o.SeqNo, v.pos)
				}
			}
		case journal.KScrape:
			if !open[e.M] {
				continue
			}
			for name, val := range e.F {
				if !strings.HasPrefix(name, "cbgo_seq_no_current{vbId=") {
					continue
				}
				vb, _ := strconv.Atoi(strings.TrimSuffix(strings.TrimPrefix(name, "cbgo_seq_no_current{vbId="), "}"))
				v := st[vbKey{e.M, vb}]
				if v == nil || !v.havePos || v.inAck {
					continue
				}
				res.probe("seq-gauge-compared")
				if uint64(val) != v.pos {
					res.violate("C04", "R4-gauge-disagrees", e.N, fmt.Sprintf("vb=%d", vb),
						"member %d vb %d: cbgo_seq_no_current is %v, furthest settled position is %d", e.M, vb, val, v.pos)
				}
			}
		case journal.KDisk:
			if e.S != "write" || !open[e.M] {
				continue
			}
			now := parseFileStore(e.Raw)
			if prev := posAtLastFileWrite[e.M]; prev != nil {
				for _, vb := range sortedKeys(now) {
					if p, ok := prev[vb]; ok && now[vb].Seq < p {
						res.violate("C04", "R8-saved-position-stale", e.N, fmt.Sprintf("vb=%d", vb),
							"member %d vb %d: the save wrote seqno %d although the tracked position had already been %d when the previous save wrote the file", e.M, vb, now[vb].Seq, p)
					}
				}
				res.probe("file-save-judged")
			}
			snap := map[int]uint64{}
			for kk, v := range st {
				if kk.m == e.M && v.havePos {
					snap[kk.vb] = v.pos
				}
			}
			posAtLastFileWrite[e.M] = snap
		case journal.KKVW:
			if e.Off == nil || e.Vb < 0 {
				continue
			}
			if _, bad := outOfRangeAcked[k]; bad && open[e.M] && !assigned[e.M][e.Vb] && prevHist[k][e.Off.Seq] && e.T-stopT[e.M] <= cfg.CkptTimeout+int64(1e9) {
				// a save that took its dump while the member still owned the vBucket (previous session) is completing
				res.probe("save-in-flight-across-sessions")
				continue
			}
			if n, bad := outOfRangeAcked[k]; bad && open[e.M] && !assigned[e.M][e.Vb] {
				res.violate("C04", "R6-checkpoint-for-unowned-vb", e.N, fmt.Sprintf("vb=%d", e.Vb),
					"member %d wrote a checkpoint (seq %d) for vb %d, which it does not own, after an out-of-range acknowledgement (event #%d)", e.M, e.Off.Seq, e.Vb, n)
				continue
			}
			v := st[k]
			if v == nil || !v.havePos || !open[e.M] {
				continue
			}
			if (e.Off.Seq > v.pos || !v.history[e.Off.Seq]) && prevHist[k][e.Off.Seq] && e.T-stopT[e.M] <= cfg.CkptTimeout+int64(1e9) {
				// written by a save that took its dump in the previous session (before a rebalance closed the stream)
				// and was still in flight: the position was tracked then
				res.probe("save-in-flight-across-sessions")
				continue
			}
			if e.Off.Seq > v.pos || !v.history[e.Off.Seq] {
				res.violate("C04", "R7-saved-position-not-tracked", e.N, fmt.Sprintf("vb=%d", e.Vb),
					"member %d vb %d: checkpoint written with seqno %d, which the tracked position never held (furthest settled %d)", e.M, e.Vb, e.Off.Seq, v.pos)
			}
		}
	}
	if run.Cfg.Prop == "C04" && !run.Cfg.Faults {
		// "written by the next save": the fault-free life scenario is also read by C05's model of explicit saves; a
		// Commit that completes without storing a position settled before it began is reported here (the recorded
		// C05 finding about positions advanced only by non-document events keeps its own signature and is left to C05)
		tmp := &Result{Probes: map[string]int{}, Faults: map[string]int{}, DeathKind: res.DeathKind, FailStop: res.FailStop}
		checkC05(run, tmp)
		for _, v := range tmp.Violations {
			if v.Rule == "C05/R1-unpersisted-after-successful-save" && v.Sig == "plain" {
				res.violate("C04", "R9-next-save-did-not-write-the-tracked-position", v.N, "plain", "%s", v.Detail)
			}
		}
		res.probe("next-save-judged")
	}
}
