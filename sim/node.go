package sim

// The simulated Couchbase cluster: a sequential reference implementation of the subset of server
// behaviour go-dcp and gocbcore use, speaking the memcached binary protocol through gocbcore's own
// memd codec. It acts only when the scheduler releases an action (except session-control commands,
// which are answered in arrival order as a real node's front end does).

import (
	"encoding/binary"
	"encoding/json"
	"fmt"
	"io"
	"sort"
	"strconv"
	"strings"
	"sync"

	"github.com/couchbase/gocbcore/v10/memd"

	"verif/journal"
)

type Item struct {
	Seq      uint64
	Kind     string // mut del exp | sys:<code>
	Key      []byte
	Val      []byte
	Cas      uint64
	Rev      uint64
	Flags    uint32
	Expiry   uint32
	Datatype uint8
	Coll     uint32
	EvCode   uint32
	ScopeID  uint32
	Manifest uint64
}

type FEntry struct{ UUID, Seq uint64 }

type Copy struct {
	UUID      uint64
	Persisted uint64
}

type VB struct {
	id       int
	failover []FEntry // newest first
	items    []Item   // ascending seqno
	high     uint64
	copies   []Copy // index = replica index (0 = active)
}

type Doc struct {
	body   []byte
	xattrs map[string][]byte
	cas    uint64
	flags  uint32
	expAt  int64 // fake ns, 0 = never
	rev    uint64
}

type Bucket struct {
	name     string
	uuid     string
	vbs      []*VB
	docs     map[string]*Doc
	vbmap    [][]int // vb -> [active, replica1, ...] node index or -1
	replicas int
	rev      int64
	revEpoch int64
}

type Req struct {
	conn  *Conn
	pkt   memd.Packet
	epoch int
	arr   int
	id    string
	at    int64 // fake time of arrival
}

type DStream struct {
	conn     *Conn
	vb       int
	opaque   uint32
	sid      string
	cursor   uint64 // last seqno sent (or requested start)
	end      uint64
	snapEnd  uint64
	inSnap   bool
	filter   map[uint32]bool
	open     bool
	endStat  int // -1 none, else pending stream-end status
	lastSent uint64
	resumeSS uint64
	// scripted misbehaviour (C06): emit next item outside its snapshot
	badSnap string
}

type Conn struct {
	id         string // tag.nK#c
	tag        string // agent tag, e.g. m1d
	member     int
	role       string // a (kv), m (meta), d (dcp)
	node       int
	rwc        io.Closer
	wmu        sync.Mutex
	wr         *memd.Conn
	bucket     *Bucket
	closed     bool
	queue      []*Req
	streams    map[int]*DStream
	stalled    bool
	dcpName    string
	zombie     bool
	silentFor  bool // stays silent through the quiesce phase (C20 'never')
	cfgRevSent int64
}

type Cluster struct {
	w              *World
	nodes          int
	buckets        map[string]*Bucket
	conns          []*Conn
	connCount      map[string]int
	collections    map[string]uint32
	manifestUID    uint64
	casCounter     uint64
	deadTags       map[string]bool
	arr            int
	streamCount    int
	silentNodes    map[int]bool
	curArr         int
	mgmtMode       string
	zombieNotFound bool       // see handle(): reads of crashed members are answered 'not found'
	cfgSubs        []*cfgSub  // open streaming-config responses (http.go)
	pendingEnds    []*DStream // streams closed by the client whose stream-end(closed) has not been sent yet
	mgmtHeld       int
	mgmtRelease    chan struct{}
}

func newCluster(w *World, nodes int) *Cluster {
	return &Cluster{
		w: w, nodes: nodes, buckets: map[string]*Bucket{}, connCount: map[string]int{},
		collections: map[string]uint32{"_default._default": 0}, deadTags: map[string]bool{}, silentNodes: map[int]bool{},
		casCounter: 1_700_000_000_000_000_000, mgmtMode: "ok", mgmtRelease: make(chan struct{}),
	}
}

func (c *Cluster) addBucket(name string, nvb, replicas int) *Bucket {
	b := &Bucket{name: name, uuid: "uuid-" + name, docs: map[string]*Doc{}, replicas: replicas, rev: 1, revEpoch: 1}
	for v := 0; v < nvb; v++ {
		vb := &VB{id: v, failover: []FEntry{{UUID: uint64(1000 + v), Seq: 0}}}
		row := make([]int, replicas+1)
		for r := 0; r <= replicas; r++ {
			if r < c.nodes {
				row[r] = (v + r) % c.nodes
			} else {
				row[r] = -1
			}
			vb.copies = append(vb.copies, Copy{UUID: vb.failover[0].UUID})
		}
		b.vbs = append(b.vbs, vb)
		b.vbmap = append(b.vbmap, row)
	}
	c.buckets[name] = b
	return b
}

func (c *Cluster) nextCas() uint64 {
	c.casCounter += 1_000_000_007 // a little over a second per write, keeps cas-derived seconds distinct
	return c.casCounter
}

// configJSON renders the terse bucket config with host names carrying the dialling agent's tag, so
// every later dial by that agent is attributable.
func (c *Cluster) configJSON(tag string, b *Bucket) []byte {
	var nodes, nodesExt []any
	var serverList []string
	for n := 0; n < c.nodes; n++ {
		host := fmt.Sprintf("%s.n%d", tag, n)
		nodes = append(nodes, map[string]any{"hostname": host + ":8091", "ports": map[string]int{"direct": 11210}})
		nodesExt = append(nodesExt, map[string]any{"hostname": host, "services": map[string]int{"kv": 11210, "mgmt": 8091}})
		serverList = append(serverList, host+":11210")
	}
	cfg := map[string]any{
		"rev": b.rev, "revEpoch": b.revEpoch, "name": b.name, "uuid": b.uuid, "nodeLocator": "vbucket",
		"bucketCapabilities": []string{"collections", "xattr", "dcp", "cccp", "nodesExt", "durableWrite"},
		"nodes":              nodes,
		"nodesExt":           nodesExt,
		"vBucketServerMap": map[string]any{
			"hashAlgorithm": "CRC", "numReplicas": b.replicas, "serverList": serverList, "vBucketMap": b.vbmap,
		},
	}
	out, _ := json.Marshal(cfg)
	return out
}

// ---------------------------------------------------------------------------------------------
// connections

// parseAddr splits "m1d.n2:11210" into tag "m1d" and node 2.
func parseAddr(addr string) (tag string, node int, ok bool) {
	host := addr
	if i := strings.LastIndex(addr, ":"); i >= 0 {
		host = addr[:i]
	}
	i := strings.LastIndex(host, ".n")
	if i < 0 {
		return "", 0, false
	}
	n, err := strconv.Atoi(host[i+2:])
	if err != nil {
		return "", 0, false
	}
	return host[:i], n, true
}

func memberOfTag(tag string) (int, string) {
	// m<digits><role>
	if len(tag) < 3 || tag[0] != 'm' {
		return 0, ""
	}
	n, err := strconv.Atoi(tag[1 : len(tag)-1])
	if err != nil {
		return 0, ""
	}
	return n, tag[len(tag)-1:]
}

// dial is called (through gocbcore.VerifDial) from inside the bubble.
func (c *Cluster) dial(addr string) (io.ReadWriteCloser, string, error) {
	tag, node, ok := parseAddr(addr)
	if !ok || node >= c.nodes {
		return nil, "", fmt.Errorf("sim: no route to %s", addr)
	}
	c.w.mu.Lock()
	if c.deadTags[tag] {
		c.w.mu.Unlock()
		return nil, "", fmt.Errorf("sim: connection refused (%s)", addr)
	}
	c.connCount[tag+"."+strconv.Itoa(node)]++
	k := c.connCount[tag+"."+strconv.Itoa(node)]
	cl, sv := newPipe()
	m, role := memberOfTag(tag)
	cn := &Conn{
		id: fmt.Sprintf("%s.n%d#%d", tag, node, k), tag: tag, member: m, role: role, node: node,
		rwc: sv, wr: memd.NewConn(sv), streams: map[int]*DStream{},
	}
	c.conns = append(c.conns, cn)
	c.w.mu.Unlock()
	c.w.jl(&journal.Ev{K: journal.KConn, M: m, Vb: -1, S: "open", ID: cn.id, S2: role})
	go c.serve(cn, sv)
	return cl, "sim-client:" + cn.id, nil
}

func (cn *Conn) write(p *memd.Packet) {
	cn.wmu.Lock()
	defer cn.wmu.Unlock()
	if cn.closed {
		return
	}
	_ = cn.wr.WritePacket(p)
}

func isSessionControl(cmd memd.CmdCode) bool {
	switch cmd {
	case memd.CmdHello, memd.CmdGetErrorMap, memd.CmdSASLListMechs, memd.CmdSASLAuth, memd.CmdSASLStep, memd.CmdSelectBucket,
		memd.CmdGetClusterConfig, memd.CmdDcpOpenConnection, memd.CmdDcpControl, memd.CmdNoop, memd.CmdDcpNoop:
		return true
	}
	return false
}

func (c *Cluster) serve(cn *Conn, sv *pipeEnd) {
	rd := memd.NewConn(sv)
	for {
		req, _, err := rd.ReadPacket()
		if err != nil {
			c.w.mu.Lock()
			was := cn.closed
			cn.closed = true
			for _, s := range cn.streams {
				s.open = false
			}
			cn.queue = nil
			c.w.mu.Unlock()
			if !was {
				c.w.jl(&journal.Ev{K: journal.KConn, M: cn.member, Vb: -1, S: "closed-by-client", ID: cn.id, S2: cn.role})
			}
			c.w.poke()
			return
		}
		if req.Command == memd.CmdDcpBufferAck {
			continue
		}
		if req.Magic == memd.CmdMagicRes {
			continue // replies to server-initiated requests (noop)
		}
		r := *req
		r.Key = append([]byte{}, req.Key...)
		r.Value = append([]byte{}, req.Value...)
		r.Extras = append([]byte{}, req.Extras...)
		if r.Command == memd.CmdHello {
			for i := 0; i+1 < len(r.Value); i += 2 {
				if memd.HelloFeature(binary.BigEndian.Uint16(r.Value[i:])) == memd.FeatureCollections {
					rd.EnableFeature(memd.FeatureCollections)
				}
			}
		}
		c.w.mu.Lock()
		if cn.zombie && c.zombieNotFound && (r.Command == memd.CmdGet || r.Command == memd.CmdSubDocMultiLookup) {
			// a dead process cannot terminate the simulation: the goroutines it left behind read "not found"
			// (which the library tolerates everywhere) instead of timing out into a deliberate panic
			c.w.mu.Unlock()
			cn.write(&memd.Packet{Magic: memd.CmdMagicRes, Command: r.Command, Opaque: r.Opaque, Status: memd.StatusKeyNotFound})
			continue
		}
		if cn.zombie || c.silentNodes[cn.node] {
			c.w.mu.Unlock()
			continue // a crashed member's traffic, or a silent node: never answered
		}
		if isSessionControl(r.Command) {
			res := c.sessionControl(cn, &r)
			c.w.mu.Unlock()
			if res != nil {
				cn.write(res)
			}
			continue
		}
		c.arr++
		q := &Req{conn: cn, pkt: r, epoch: c.w.epoch, arr: c.arr, at: c.w.now()}
		q.id = fmt.Sprintf("%s|%s|vb%d|%s|%s", cn.id, r.Command.Name(), r.Vbucket, printable(r.Key), reqDetail(&r))
		cn.queue = append(cn.queue, q)
		rev := &journal.Ev{K: journal.KReq, M: cn.member, Vb: int(r.Vbucket), Key: r.Key, S: r.Command.Name(), ID: q.id, S2: cn.role, I: int64(q.arr)}
		if r.Command == memd.CmdDcpStreamReq && len(r.Extras) >= 48 {
			rev.U = uint64(binary.BigEndian.Uint32(r.Extras[0:]))
			rev.Off = &journal.Off{
				Seq: binary.BigEndian.Uint64(r.Extras[8:]), Latest: binary.BigEndian.Uint64(r.Extras[16:]),
				UUID: binary.BigEndian.Uint64(r.Extras[24:]), Start: binary.BigEndian.Uint64(r.Extras[32:]), End: binary.BigEndian.Uint64(r.Extras[40:]),
			}
		}
		c.w.jl(rev)
		c.w.mu.Unlock()
		c.w.poke()
	}
}

func printable(b []byte) string {
	for _, x := range b {
		if x < 0x20 || x > 0x7e {
			return fmt.Sprintf("%x", b)
		}
	}
	return string(b)
}

func reqDetail(r *memd.Packet) string {
	switch r.Command {
	case memd.CmdGetAllVBSeqnos:
		if len(r.Extras) >= 8 {
			return fmt.Sprintf("cid%d", binary.BigEndian.Uint32(r.Extras[4:]))
		}
	case memd.CmdCollectionsGetID:
		return string(r.Value)
	}
	return ""
}

// sessionControl answers the connection set-up commands immediately (w.mu held).
func (c *Cluster) sessionControl(cn *Conn, req *memd.Packet) *memd.Packet {
	res := &memd.Packet{Magic: memd.CmdMagicRes, Command: req.Command, Opaque: req.Opaque, Status: memd.StatusSuccess}
	switch req.Command {
	case memd.CmdHello:
		var out []byte
		for i := 0; i+1 < len(req.Value); i += 2 {
			f := memd.HelloFeature(binary.BigEndian.Uint16(req.Value[i:]))
			switch f {
			case memd.FeatureXattr, memd.FeatureXerror, memd.FeatureSelectBucket, memd.FeatureJSON, memd.FeatureSeqNo,
				memd.FeatureCollections, memd.FeatureAltRequests, memd.FeatureDatatype, memd.FeatureDuplex:
				out = binary.BigEndian.AppendUint16(out, uint16(f))
			}
		}
		res.Value = out
	case memd.CmdGetErrorMap:
		res.Value = []byte(`{"version":1,"revision":1,"errors":{}}`)
	case memd.CmdSASLListMechs:
		res.Value = []byte("PLAIN")
	case memd.CmdSASLAuth, memd.CmdNoop, memd.CmdDcpControl:
	case memd.CmdSelectBucket:
		b, ok := c.buckets[string(req.Key)]
		if !ok {
			res.Status = memd.StatusKeyNotFound
		} else {
			cn.bucket = b
		}
	case memd.CmdDcpOpenConnection:
		cn.dcpName = string(req.Key)
	case memd.CmdGetClusterConfig:
		if cn.bucket == nil {
			res.Status = memd.StatusNoBucket
		} else {
			res.Value = c.configJSON(cn.tag, cn.bucket)
			if cn.bucket.revKey() != cn.cfgRevSent {
				// which revision of the cluster map each agent has been given: the map "listed" for that client
				cn.cfgRevSent = cn.bucket.revKey()
				c.w.jl(&journal.Ev{K: journal.KNote, M: cn.member, Vb: -1, S: "config-sent", S2: cn.role, I: cn.bucket.revKey(), ID: cn.id})
			}
		}
	default:
		res.Status = memd.StatusUnknownCommand
	}
	return res
}

// ---------------------------------------------------------------------------------------------
// request handling at release time (root goroutine, w.mu held)

type replyVariant struct {
	name   string
	status memd.StatusCode
	rbSeq  uint64 // for rollback
	silent bool   // the request is never answered
}

var normalReply = replyVariant{name: "ok"}

func (c *Cluster) vbOf(cn *Conn, vb uint16) *VB {
	if cn.bucket == nil || int(vb) >= len(cn.bucket.vbs) {
		return nil
	}
	return cn.bucket.vbs[vb]
}

// respond computes and sends the reply for q under variant v.
func (c *Cluster) respond(q *Req, v replyVariant) {
	cn := q.conn
	req := &q.pkt
	res := &memd.Packet{Magic: memd.CmdMagicRes, Command: req.Command, Opaque: req.Opaque, Status: memd.StatusSuccess}
	w := c.w
	c.curArr = q.arr
	ev := &journal.Ev{K: journal.KRsp, M: cn.member, Vb: int(req.Vbucket), S: req.Command.Name(), ID: q.id, Key: req.Key, I: int64(q.arr)}
	if v.status != 0 {
		res.Status = v.status
		if v.status == memd.StatusRollback {
			res.Value = binary.BigEndian.AppendUint64(nil, v.rbSeq)
		}
		if req.Command == memd.CmdDcpStreamReq {
			w.jl(c.sreqEvent(cn, req, res.Status, v.rbSeq, nil, ""))
		}
		ev.S2 = statusName(res.Status)
		ev.B = true
		w.jl(ev)
		cn.write(res)
		return
	}
	if cn.bucket == nil {
		res.Status = memd.StatusNoBucket
		ev.S2 = statusName(res.Status)
		w.jl(ev)
		cn.write(res)
		return
	}
	var after func()
	if len(req.Key) > 250 && req.Command != memd.CmdCollectionsGetID {
		// kv_engine refuses keys longer than 250 bytes
		res.Status = memd.StatusInvalidArgs
		ev.S2 = statusName(res.Status)
		w.jl(ev)
		cn.write(res)
		return
	}
	switch req.Command {
	case memd.CmdCollectionsGetID:
		name := string(req.Value)
		if name == "" {
			name = string(req.Key)
		}
		cid, ok := c.collections[name]
		if !ok {
			res.Status = memd.StatusCollectionUnknown
		} else {
			res.Extras = make([]byte, 12)
			binary.BigEndian.PutUint64(res.Extras, c.manifestUID)
			binary.BigEndian.PutUint32(res.Extras[8:], cid)
		}
	case memd.CmdGetAllVBSeqnos:
		cid := int64(-1)
		if len(req.Extras) >= 8 {
			cid = int64(binary.BigEndian.Uint32(req.Extras[4:]))
		}
		var l, lh []uint64
		for _, vb := range cn.bucket.vbs {
			if cn.bucket.vbmap[vb.id][0] != cn.node {
				continue
			}
			lh = append(lh, uint64(vb.id), vb.high)
			if w.cfg.SeqnoOmitVb == vb.id+1 {
				continue // the vBucket is momentarily active nowhere (takeover): no node lists it
			}
			hs := vb.high
			if cid >= 0 {
				hs = 0
				for i := len(vb.items) - 1; i >= 0; i-- {
					if vb.items[i].Coll == uint32(cid) || strings.HasPrefix(vb.items[i].Kind, "sys:") {
						hs = vb.items[i].Seq
						break
					}
				}
				if w.cfg.SeqnoCollHigh {
					hs = vb.high // kv_engine reports the collection's high seqno; a scenario may pin it to the vb's
				}
			}
			res.Value = binary.BigEndian.AppendUint16(res.Value, uint16(vb.id))
			res.Value = binary.BigEndian.AppendUint64(res.Value, hs)
			l = append(l, uint64(vb.id), hs)
		}
		w.jl(&journal.Ev{K: journal.KSeqnos, M: cn.member, Vb: -1, L: l, I: cid, S: cn.role})
		if cn.role == "d" {
			w.jl(&journal.Ev{K: journal.KNote, M: cn.member, Vb: -1, S: "vbhighs", L: lh, I: cid})
		}
	case memd.CmdGet:
		d := c.liveDoc(cn.bucket, string(req.Key))
		if d == nil {
			res.Status = memd.StatusKeyNotFound
		} else {
			res.Value = d.body
			res.Cas = d.cas
			res.Extras = binary.BigEndian.AppendUint32(nil, d.flags)
			res.Datatype = uint8(memd.DatatypeFlagJSON)
		}
		w.jl(&journal.Ev{K: journal.KKVR, M: cn.member, Vb: -1, Key: req.Key, S: "get", S2: statusName(res.Status), Raw: res.Value, U: res.Cas})
	case memd.CmdSet, memd.CmdAdd:
		d := c.liveDoc(cn.bucket, string(req.Key))
		switch {
		case req.Command == memd.CmdAdd && d != nil:
			res.Status = memd.StatusKeyExists
		case req.Cas != 0 && (d == nil || d.cas != req.Cas):
			if d == nil {
				res.Status = memd.StatusKeyNotFound
			} else {
				res.Status = memd.StatusKeyExists
			}
		default:
			nd := &Doc{body: req.Value, xattrs: map[string][]byte{}, cas: c.nextCas()}
			if d != nil {
				nd.rev = d.rev
			}
			nd.rev++
			if len(req.Extras) >= 8 {
				nd.flags = binary.BigEndian.Uint32(req.Extras)
				nd.expAt = c.expiryToAbs(binary.BigEndian.Uint32(req.Extras[4:]))
			}
			cn.bucket.docs[string(req.Key)] = nd
			res.Cas = nd.cas
			seq := c.appendKVItem(cn.bucket, int(req.Vbucket), "mut", req.Key, nd)
			res.Extras = c.mutToken(cn.bucket, int(req.Vbucket), seq)
			w.jl(&journal.Ev{K: journal.KKVW, M: cn.member, Vb: -1, Key: req.Key, S: strings.ToLower(req.Command.Name()), S2: cn.bucket.name, Raw: req.Value, U: nd.cas, Seq: seq, I: int64(req.Vbucket)})
		}
	case memd.CmdDelete:
		d := c.liveDoc(cn.bucket, string(req.Key))
		if d == nil {
			res.Status = memd.StatusKeyNotFound
		} else {
			delete(cn.bucket.docs, string(req.Key))
			nd := &Doc{cas: c.nextCas(), rev: d.rev + 1}
			res.Cas = nd.cas
			seq := c.appendKVItem(cn.bucket, int(req.Vbucket), "del", req.Key, nd)
			res.Extras = c.mutToken(cn.bucket, int(req.Vbucket), seq)
			w.jl(&journal.Ev{K: journal.KKVW, M: cn.member, Vb: -1, Key: req.Key, S: "delete", S2: cn.bucket.name, U: nd.cas, Seq: seq, I: int64(req.Vbucket)})
		}
	case memd.CmdSubDocMultiLookup:
		c.subdocLookup(cn, req, res)
	case memd.CmdSubDocMultiMutation:
		c.subdocMutate(cn, req, res)
	case memd.CmdObserveSeqNo:
		c.observeSeqno(cn, req, res)
	case memd.CmdDcpGetFailoverLog:
		vb := c.vbOf(cn, req.Vbucket)
		if vb == nil || cn.bucket.vbmap[vb.id][0] != cn.node {
			res.Status = memd.StatusNotMyVBucket
		} else {
			fl := vb.failover
			if w.scriptFlog != nil {
				if s := w.scriptFlog(int(req.Vbucket)); s != nil {
					fl = s
				}
			}
			var l []uint64
			for _, fe := range fl {
				res.Value = binary.BigEndian.AppendUint64(res.Value, fe.UUID)
				res.Value = binary.BigEndian.AppendUint64(res.Value, fe.Seq)
				l = append(l, fe.UUID, fe.Seq)
			}
			w.jl(&journal.Ev{K: journal.KFlog, M: cn.member, Vb: int(req.Vbucket), L: l, S2: "ok"})
		}
	case memd.CmdDcpCloseStream:
		s := cn.streams[int(req.Vbucket)]
		if s == nil || !s.open {
			res.Status = memd.StatusKeyNotFound
		} else {
			// the server answers the request and then emits stream-end(closed)
			s.endStat = int(memd.StreamEndClosed)
			s.open = false
			st := s
			if w.cfg.W.LateEnd > 0 && !w.quiet && w.tape.Draw(3, nil) == 0 {
				// the producer sends the stream-end asynchronously: it may reach the client well after the response
				delete(cn.streams, st.vb)
				c.pendingEnds = append(c.pendingEnds, st)
				w.probe("stream-end-after-close-response")
			} else {
				after = func() { c.emitEnd(st) }
			}
		}
	case memd.CmdDcpStreamReq:
		after = c.streamReq(cn, req, res)
	default:
		res.Status = memd.StatusUnknownCommand
	}
	ev.S2 = statusName(res.Status)
	w.jl(ev)
	cn.write(res)
	if after != nil {
		after()
	}
}

func statusName(s memd.StatusCode) string {
	if s == memd.StatusSuccess {
		return "ok"
	}
	return fmt.Sprintf("0x%02x", uint16(s))
}

func (c *Cluster) expiryToAbs(exp uint32) int64 {
	if exp == 0 {
		return 0
	}
	return c.w.now() + int64(exp)*1_000_000_000
}

func (c *Cluster) liveDoc(b *Bucket, key string) *Doc {
	d := b.docs[key]
	if d == nil {
		return nil
	}
	if d.expAt != 0 && c.w.now() >= d.expAt {
		// lazily expire: the document disappears and an expiration enters the vBucket's log
		delete(b.docs, key)
		vb := int(cbCRC([]byte(key))) % len(b.vbs)
		nd := &Doc{cas: c.nextCas(), rev: d.rev + 1}
		c.appendKVItem(b, vb, "exp", []byte(key), nd)
		return nil
	}
	return d
}

func (c *Cluster) mutToken(b *Bucket, vb int, seq uint64) []byte {
	out := make([]byte, 16)
	binary.BigEndian.PutUint64(out, b.vbs[vb].failover[0].UUID)
	binary.BigEndian.PutUint64(out[8:], seq)
	return out
}

// appendKVItem puts a KV write into the vBucket's item log (so library writes come back over DCP).
func (c *Cluster) appendKVItem(b *Bucket, vb int, kind string, key []byte, d *Doc) uint64 {
	v := b.vbs[vb]
	if v.high >= 1<<64-2 {
		return v.high // the top of the seqno range (boundary scenarios only): the write is not logged
	}
	v.high++
	it := Item{Seq: v.high, Kind: kind, Key: append([]byte{}, key...), Val: d.body, Cas: d.cas, Rev: d.rev, Flags: d.flags, Datatype: uint8(memd.DatatypeFlagJSON)}
	if kind != "mut" {
		it.Val = nil
		it.Datatype = 0
	}
	v.items = append(v.items, it)
	return v.high
}

func (c *Cluster) subdocLookup(cn *Conn, req, res *memd.Packet) {
	d := c.liveDoc(cn.bucket, string(req.Key))
	ev := &journal.Ev{K: journal.KKVR, M: cn.member, Vb: -1, Key: req.Key, S: "lookupin"}
	defer func() { ev.S2 = statusName(res.Status); c.w.jl(ev) }()
	if d == nil {
		res.Status = memd.StatusKeyNotFound
		return
	}
	val := req.Value
	var out []byte
	bad := false
	for len(val) >= 4 {
		flags := val[1]
		plen := int(binary.BigEndian.Uint16(val[2:]))
		path := string(val[4 : 4+plen])
		val = val[4+plen:]
		var v []byte
		ok := false
		if flags&uint8(memd.SubdocFlagXattrPath) != 0 {
			v, ok = d.xattrs[path]
		} else if path == "" {
			v, ok = d.body, true
		}
		if !ok {
			bad = true
			out = binary.BigEndian.AppendUint16(out, uint16(memd.StatusSubDocPathNotFound))
			out = binary.BigEndian.AppendUint32(out, 0)
		} else {
			out = binary.BigEndian.AppendUint16(out, 0)
			out = binary.BigEndian.AppendUint32(out, uint32(len(v)))
			out = append(out, v...)
			ev.Raw = v
		}
	}
	if bad {
		res.Status = memd.StatusSubDocBadMulti
	}
	res.Value = out
	res.Cas = d.cas
}

func (c *Cluster) subdocMutate(cn *Conn, req, res *memd.Packet) {
	var expiry uint32
	var docFlags uint8
	switch len(req.Extras) {
	case 1:
		docFlags = req.Extras[0]
	case 4:
		expiry = binary.BigEndian.Uint32(req.Extras)
	case 5:
		expiry = binary.BigEndian.Uint32(req.Extras)
		docFlags = req.Extras[4]
	}
	key := string(req.Key)
	d := c.liveDoc(cn.bucket, key)
	mkdoc := docFlags&uint8(memd.SubdocDocFlagMkDoc) != 0
	if d == nil && !mkdoc {
		res.Status = memd.StatusKeyNotFound
		return
	}
	if d != nil && req.Cas != 0 && d.cas != req.Cas {
		res.Status = memd.StatusKeyExists
		return
	}
	nd := &Doc{xattrs: map[string][]byte{}}
	if d != nil {
		nd.body, nd.flags, nd.expAt, nd.rev = d.body, d.flags, d.expAt, d.rev
		for k, v := range d.xattrs {
			nd.xattrs[k] = v
		}
	} else {
		nd.body = []byte("{}")
	}
	ev := &journal.Ev{K: journal.KKVW, M: cn.member, Vb: -1, Key: req.Key, S2: cn.bucket.name, I: int64(req.Vbucket), U2: uint64(c.curArr)}
	val := req.Value
	for len(val) >= 8 {
		op := memd.SubDocOpType(val[0])
		flags := val[1]
		plen := int(binary.BigEndian.Uint16(val[2:]))
		vlen := int(binary.BigEndian.Uint32(val[4:]))
		path := string(val[8 : 8+plen])
		v := append([]byte{}, val[8+plen:8+plen+vlen]...)
		val = val[8+plen+vlen:]
		switch {
		case op == memd.SubDocOpDictSet && flags&uint8(memd.SubdocFlagXattrPath) != 0:
			nd.xattrs[path] = v
			ev.S = "xattr:" + path
			ev.Raw = v
			if o, vb, ok := parseCheckpoint(req.Key, v); ok {
				ev.Off, ev.Vb = o, vb
			}
		case op == memd.SubDocOpSetDoc:
			nd.body = v
			ev.S = "setdoc"
			ev.Raw = v
		case op == memd.SubDocOpDictSet:
			// body path set (membership index): a flat JSON object keyed by path
			m := map[string]json.RawMessage{}
			_ = json.Unmarshal(nd.body, &m)
			m[path] = v
			nd.body, _ = json.Marshal(m)
			ev.S = "dictset:" + path
			ev.Raw = v
		default:
			res.Status = memd.StatusSubDocBadMulti
			res.Value = []byte{0, 0, byte(memd.StatusSubDocPathInvalid)}
			return
		}
	}
	if expiry != 0 {
		nd.expAt = c.expiryToAbs(expiry)
	} else if req.Command == memd.CmdSubDocMultiMutation && ev.S == "setdoc" {
		nd.expAt = 0 // a full-document write without expiry clears the TTL
	}
	nd.cas = c.nextCas()
	nd.rev++
	cn.bucket.docs[key] = nd
	res.Cas = nd.cas
	seq := c.appendKVItem(cn.bucket, int(req.Vbucket), "mut", req.Key, nd)
	res.Extras = c.mutToken(cn.bucket, int(req.Vbucket), seq)
	ev.U, ev.Seq = nd.cas, seq
	c.w.jl(ev)
}

// parseCheckpoint decodes a checkpoint document payload; vb is parsed from the key's last segment.
func parseCheckpoint(key, payload []byte) (*journal.Off, int, bool) {
	var doc struct {
		Checkpoint *struct {
			Snapshot *struct {
				Start uint64 `json:"startSeqno"`
				End   uint64 `json:"endSeqno"`
			} `json:"snapshot"`
			UUID uint64 `json:"vbuuid"`
			Seq  uint64 `json:"seqno"`
		} `json:"checkpoint"`
	}
	if err := json.Unmarshal(payload, &doc); err != nil || doc.Checkpoint == nil || doc.Checkpoint.Snapshot == nil {
		return nil, -1, false
	}
	k := string(key)
	i := strings.LastIndex(k, ":checkpoint:")
	if i < 0 {
		return nil, -1, false
	}
	vb, err := strconv.Atoi(k[i+len(":checkpoint:"):])
	if err != nil {
		return nil, -1, false
	}
	return &journal.Off{UUID: doc.Checkpoint.UUID, Seq: doc.Checkpoint.Seq, Start: doc.Checkpoint.Snapshot.Start, End: doc.Checkpoint.Snapshot.End}, vb, true
}

func (c *Cluster) observeSeqno(cn *Conn, req, res *memd.Packet) {
	vb := c.vbOf(cn, req.Vbucket)
	ridx := -1
	if vb != nil {
		for r, n := range cn.bucket.vbmap[vb.id] {
			if n == cn.node {
				ridx = r
			}
		}
	}
	if ridx < 0 {
		res.Status = memd.StatusNotMyVBucket
		c.w.jl(&journal.Ev{K: journal.KObs, M: cn.member, Vb: int(req.Vbucket), I: -1, S2: statusName(res.Status)})
		return
	}
	cp := vb.copies[ridx]
	v := make([]byte, 27)
	binary.BigEndian.PutUint16(v[1:], req.Vbucket)
	binary.BigEndian.PutUint64(v[3:], cp.UUID)
	binary.BigEndian.PutUint64(v[11:], cp.Persisted)
	binary.BigEndian.PutUint64(v[19:], vb.high)
	res.Value = v
	c.w.jl(&journal.Ev{K: journal.KObs, M: cn.member, Vb: vb.id, I: int64(ridx), U: cp.UUID, U2: cp.Persisted, Seq: vb.high, S2: "ok"})
}

// ---------------------------------------------------------------------------------------------
// DCP producer

func (c *Cluster) sreqEvent(cn *Conn, req *memd.Packet, st memd.StatusCode, rb uint64, flog []FEntry, sid string) *journal.Ev {
	ev := &journal.Ev{K: journal.KSReq, M: cn.member, Vb: int(req.Vbucket), S2: statusName(st), U2: rb, ID: sid}
	if len(req.Extras) >= 48 {
		ev.U = uint64(binary.BigEndian.Uint32(req.Extras[0:]))
		ev.Off = &journal.Off{
			Seq: binary.BigEndian.Uint64(req.Extras[8:]), Latest: binary.BigEndian.Uint64(req.Extras[16:]),
			UUID: binary.BigEndian.Uint64(req.Extras[24:]), Start: binary.BigEndian.Uint64(req.Extras[32:]), End: binary.BigEndian.Uint64(req.Extras[40:]),
		}
	}
	for _, fe := range flog {
		ev.L = append(ev.L, fe.UUID, fe.Seq)
	}
	ev.S = string(req.Value)
	return ev
}

// needsRollback follows kv_engine's failover-table check.
func needsRollback(vb *VB, start, uuid, snapStart, snapEnd uint64) (bool, uint64) {
	if start == 0 {
		return false, 0
	}
	if start == snapEnd {
		snapStart = start
	}
	if start == snapStart {
		snapEnd = start
	}
	idx := -1
	for i, fe := range vb.failover {
		if fe.UUID == uuid {
			idx = i
			break
		}
	}
	if idx < 0 {
		return true, 0
	}
	upper := vb.high
	if idx > 0 {
		upper = vb.failover[idx-1].Seq
	}
	if snapEnd <= upper {
		return false, 0
	}
	if snapStart < upper {
		return true, snapStart
	}
	return true, upper
}

func (c *Cluster) streamReq(cn *Conn, req, res *memd.Packet) func() {
	w := c.w
	vb := c.vbOf(cn, req.Vbucket)
	if vb == nil || cn.bucket.vbmap[vb.id][0] != cn.node {
		res.Status = memd.StatusNotMyVBucket
		w.jl(c.sreqEvent(cn, req, res.Status, 0, nil, ""))
		return nil
	}
	if len(req.Extras) < 48 {
		res.Status = memd.StatusInvalidArgs
		return nil
	}
	start := binary.BigEndian.Uint64(req.Extras[8:])
	end := binary.BigEndian.Uint64(req.Extras[16:])
	uuid := binary.BigEndian.Uint64(req.Extras[24:])
	ss := binary.BigEndian.Uint64(req.Extras[32:])
	se := binary.BigEndian.Uint64(req.Extras[40:])
	scripted := false
	if w.scriptSReq != nil {
		if v, ok := w.scriptSReq(cn, int(req.Vbucket), start); ok {
			scripted = true
			res.Status = v.status
			if v.status == memd.StatusRollback {
				res.Value = binary.BigEndian.AppendUint64(nil, v.rbSeq)
			}
			if v.status != memd.StatusSuccess {
				w.jl(c.sreqEvent(cn, req, res.Status, v.rbSeq, nil, ""))
				return nil
			}
		}
	}
	if !scripted && w.scriptSReq == nil {
		if start > end || !(ss <= start && start <= se) {
			res.Status = memd.StatusRangeError
			w.jl(c.sreqEvent(cn, req, res.Status, 0, nil, ""))
			return nil
		}
		if rb, to := needsRollback(vb, start, uuid, ss, se); rb {
			res.Status = memd.StatusRollback
			res.Value = binary.BigEndian.AppendUint64(nil, to)
			w.jl(c.sreqEvent(cn, req, res.Status, to, nil, ""))
			return nil
		}
	}
	if old := cn.streams[vb.id]; old != nil && old.open {
		res.Status = memd.StatusKeyExists
		w.jl(c.sreqEvent(cn, req, res.Status, 0, nil, ""))
		return nil
	}
	fl := vb.failover
	if w.scriptFlog != nil {
		if s := w.scriptFlog(vb.id); s != nil {
			fl = s
		}
	}
	for _, fe := range fl {
		res.Value = binary.BigEndian.AppendUint64(res.Value, fe.UUID)
		res.Value = binary.BigEndian.AppendUint64(res.Value, fe.Seq)
	}
	c.streamCount++
	s := &DStream{conn: cn, vb: vb.id, opaque: req.Opaque, cursor: start, end: end, open: true, endStat: -1,
		sid: fmt.Sprintf("s%d.m%d.vb%d", c.streamCount, cn.member, vb.id)}
	if len(req.Value) > 0 {
		var f struct {
			Collections []string `json:"collections"`
		}
		if json.Unmarshal(req.Value, &f) == nil && len(f.Collections) > 0 {
			s.filter = map[uint32]bool{}
			for _, h := range f.Collections {
				id, _ := strconv.ParseUint(h, 16, 32)
				s.filter[uint32(id)] = true
			}
		}
	}
	if ss < start && start < se {
		// resumed mid-snapshot: the original snapshot is re-announced on the first marker
		s.snapEnd, s.resumeSS = se, ss
	}
	s.lastSent = start
	cn.streams[vb.id] = s
	w.jl(c.sreqEvent(cn, req, res.Status, 0, fl, s.sid))
	return nil
}

func (c *Cluster) vbFor(s *DStream) *VB { return s.conn.bucket.vbs[s.vb] }

// nextItem returns the index of the first item with seqno > cursor, or -1.
func nextItemIdx(vb *VB, cursor uint64) int {
	i := sort.Search(len(vb.items), func(i int) bool { return vb.items[i].Seq > cursor })
	if i >= len(vb.items) {
		return -1
	}
	return i
}

// canEmit reports whether the producer has a message for this stream.
func (c *Cluster) canEmit(s *DStream) bool {
	if !s.open || s.conn.closed || s.conn.zombie {
		return false
	}
	if s.cursor >= s.end {
		return true // finite stream reached its end: stream-end(ok)
	}
	vb := c.vbFor(s)
	if s.inSnap {
		return true
	}
	i := nextItemIdx(vb, s.cursor)
	return i >= 0 && vb.items[i].Seq <= vbVisibleHigh(vb)
}

func vbVisibleHigh(vb *VB) uint64 { return vb.high }

func (c *Cluster) dcpPacket(s *DStream, cmd memd.CmdCode) *memd.Packet {
	return &memd.Packet{Magic: memd.CmdMagicReq, Command: cmd, Vbucket: uint16(s.vb), Opaque: s.opaque}
}

func (c *Cluster) emitEnd(s *DStream) {
	p := c.dcpPacket(s, memd.CmdDcpStreamEnd)
	p.Extras = binary.BigEndian.AppendUint32(nil, uint32(s.endStat))
	c.w.jl(&journal.Ev{K: journal.KEmit, M: s.conn.member, Vb: s.vb, S: "end", I: int64(s.endStat), ID: s.sid})
	s.open = false
	if s.conn.streams[s.vb] == s {
		delete(s.conn.streams, s.vb)
	}
	s.conn.write(p)
}

func appendLEB128(b []byte, v uint32) []byte {
	for {
		c := uint8(v & 0x7f)
		v >>= 7
		if v != 0 {
			c |= 0x80
		}
		b = append(b, c)
		if c&0x80 == 0 {
			break
		}
	}
	return b
}

// emitNext hands the next producer message of stream s to its connection (w.mu held, root).
// pick chooses a snapshot end among candidate item indexes (scheduler parameter).
func (c *Cluster) emitNext(s *DStream, pick func(n int) int) {
	w := c.w
	vb := c.vbFor(s)
	if s.endStat >= 0 {
		c.emitEnd(s)
		return
	}
	if s.cursor >= s.end {
		s.endStat = int(memd.StreamEndOK)
		c.emitEnd(s)
		return
	}
	if !s.inSnap {
		i := nextItemIdx(vb, s.cursor)
		if i < 0 {
			return
		}
		// candidates for the snapshot end: any later item's seqno (bounded by the stream end)
		hi := i
		for hi+1 < len(vb.items) && vb.items[hi+1].Seq <= s.end {
			hi++
		}
		var endSeq uint64
		startSeq := vb.items[i].Seq
		if s.snapEnd > s.cursor {
			// resumed mid-snapshot: the original snapshot is re-announced
			endSeq, startSeq = s.snapEnd, s.resumeSS
		} else {
			k := pick(hi - i + 1)
			endSeq = vb.items[i+k].Seq
			if pick(2) == 1 {
				startSeq = s.cursor // kv_engine also announces snapshots that begin at the resume point
			}
		}
		s.snapEnd = endSeq
		s.inSnap = true
		bad := s.badSnap
		s.badSnap = ""
		switch bad {
		case "nomarker":
			w.jl(&journal.Ev{K: journal.KEmit, M: s.conn.member, Vb: s.vb, S: "marker-omitted", ID: s.sid, B: true})
			return
		case "above": // the first item lies above the announced range
			endSeq = vb.items[i].Seq - 1
			if startSeq > endSeq {
				startSeq = endSeq
			}
		case "below": // the first item lies below the announced range
			startSeq = vb.items[i].Seq + 1
			if endSeq < startSeq {
				endSeq = startSeq
			}
		}
		p := c.dcpPacket(s, memd.CmdDcpSnapshotMarker)
		p.Extras = make([]byte, 20)
		binary.BigEndian.PutUint64(p.Extras, startSeq)
		binary.BigEndian.PutUint64(p.Extras[8:], endSeq)
		typ := uint32(1) // memory
		if pick(3) == 2 {
			typ = 2 // disk
		}
		binary.BigEndian.PutUint32(p.Extras[16:], typ)
		w.jl(&journal.Ev{K: journal.KEmit, M: s.conn.member, Vb: s.vb, S: "marker", U: startSeq, U2: endSeq, ID: s.sid, B: bad != ""})
		s.conn.write(p)
		return
	}
	// inside a snapshot: next visible item up to snapEnd
	for {
		i := nextItemIdx(vb, s.cursor)
		if i < 0 || vb.items[i].Seq > s.snapEnd {
			// the tail of the snapshot was filtered out: close it with seqno-advanced
			if s.lastSent < s.snapEnd && s.cursor < s.snapEnd {
				s.cursor = s.snapEnd
			}
			if s.lastSent < s.snapEnd {
				p := c.dcpPacket(s, memd.CmdDcpSeqNoAdvanced)
				p.Extras = binary.BigEndian.AppendUint64(nil, s.snapEnd)
				w.jl(&journal.Ev{K: journal.KEmit, M: s.conn.member, Vb: s.vb, S: "seqadv", Seq: s.snapEnd, ID: s.sid})
				s.lastSent = s.snapEnd
				s.inSnap = false
				s.conn.write(p)
				return
			}
			s.inSnap = false
			return
		}
		it := &vb.items[i]
		s.cursor = it.Seq
		if s.filter != nil && !strings.HasPrefix(it.Kind, "sys:") && !s.filter[it.Coll] {
			continue // not in this stream's collection filter
		}
		c.emitItem(s, it)
		s.lastSent = it.Seq
		if s.cursor >= s.snapEnd {
			s.inSnap = false
		}
		return
	}
}

func (c *Cluster) emitItem(s *DStream, it *Item) {
	ev := &journal.Ev{K: journal.KEmit, M: s.conn.member, Vb: s.vb, S: it.Kind, Seq: it.Seq, Key: it.Key, ID: s.sid, I: int64(it.Cas),
		U: uint64(it.Coll), A: map[string]string{}}
	var p *memd.Packet
	key := appendLEB128(nil, it.Coll)
	key = append(key, it.Key...)
	switch {
	case it.Kind == "mut":
		p = c.dcpPacket(s, memd.CmdDcpMutation)
		p.Extras = make([]byte, 31)
		binary.BigEndian.PutUint64(p.Extras, it.Seq)
		binary.BigEndian.PutUint64(p.Extras[8:], it.Rev)
		binary.BigEndian.PutUint32(p.Extras[16:], it.Flags)
		binary.BigEndian.PutUint32(p.Extras[20:], it.Expiry)
		p.Key, p.Value, p.Cas, p.Datatype = key, it.Val, it.Cas, it.Datatype
	case it.Kind == "del":
		p = c.dcpPacket(s, memd.CmdDcpDeletion)
		p.Extras = make([]byte, 18)
		binary.BigEndian.PutUint64(p.Extras, it.Seq)
		binary.BigEndian.PutUint64(p.Extras[8:], it.Rev)
		p.Key, p.Value, p.Cas, p.Datatype = key, it.Val, it.Cas, it.Datatype
	case it.Kind == "exp":
		p = c.dcpPacket(s, memd.CmdDcpExpiration)
		p.Extras = make([]byte, 20)
		binary.BigEndian.PutUint64(p.Extras, it.Seq)
		binary.BigEndian.PutUint64(p.Extras[8:], it.Rev)
		p.Key, p.Cas = key, it.Cas
	default: // system event
		p = c.dcpPacket(s, memd.CmdDcpEvent)
		p.Extras = make([]byte, 13)
		binary.BigEndian.PutUint64(p.Extras, it.Seq)
		binary.BigEndian.PutUint32(p.Extras[8:], it.EvCode)
		p.Extras[12] = 0
		p.Key = it.Key
		v := make([]byte, 16)
		binary.BigEndian.PutUint64(v, it.Manifest)
		switch memd.StreamEventCode(it.EvCode) {
		case memd.StreamEventCollectionCreate, memd.StreamEventCollectionDelete:
			binary.BigEndian.PutUint32(v[8:], it.ScopeID)
			binary.BigEndian.PutUint32(v[12:], it.Coll)
		case memd.StreamEventCollectionFlush:
			binary.BigEndian.PutUint32(v[8:], it.Coll)
			v = v[:12]
		case memd.StreamEventScopeCreate, memd.StreamEventScopeDelete:
			binary.BigEndian.PutUint32(v[8:], it.ScopeID)
			v = v[:12]
		default: // collection changed
			binary.BigEndian.PutUint32(v[8:], it.Coll)
			binary.BigEndian.PutUint32(v[12:], 0)
		}
		p.Value = v
	}
	ev.A["rev"] = strconv.FormatUint(it.Rev, 10)
	ev.A["flags"] = strconv.FormatUint(uint64(it.Flags), 10)
	ev.A["expiry"] = strconv.FormatUint(uint64(it.Expiry), 10)
	ev.A["dt"] = strconv.Itoa(int(it.Datatype))
	ev.Raw = it.Val
	c.w.jl(ev)
	s.conn.write(p)
}

// ---------------------------------------------------------------------------------------------
// external workload and faults (root, w.mu held)

func (c *Cluster) extWrite(b *Bucket, vbID int, it Item) uint64 {
	vb := b.vbs[vbID]
	vb.high++
	it.Seq = vb.high
	if it.Cas == 0 {
		it.Cas = c.nextCas()
	}
	vb.items = append(vb.items, it)
	c.w.jl(&journal.Ev{K: journal.KWrite, Vb: vbID, Seq: it.Seq, S: it.Kind, Key: it.Key, I: int64(it.Cas), U: uint64(it.Coll), S2: b.name})
	return it.Seq
}

func (c *Cluster) dropConn(cn *Conn) {
	cn.wmu.Lock()
	cn.closed = true
	cn.wmu.Unlock()
	for _, s := range cn.streams {
		s.open = false
	}
	cn.queue = nil
	_ = cn.rwc.Close()
	c.w.jl(&journal.Ev{K: journal.KConn, M: cn.member, Vb: -1, S: "drop", ID: cn.id})
}

// cbCRC is Couchbase's key hash (same as gocbcore's cbCrc).
func cbCRC(key []byte) uint32 {
	crc := uint32(0xffffffff)
	for _, x := range key {
		crc = (crc >> 8) ^ crc32tab[(uint64(crc)^uint64(x))&0xff]
	}
	return (^crc) >> 16 & 0x7fff
}

var crc32tab = func() [256]uint32 {
	var t [256]uint32
	for i := 0; i < 256; i++ {
		c := uint32(i)
		for j := 0; j < 8; j++ {
			if c&1 == 1 {
				c = 0xedb88320 ^ (c >> 1)
			} else {
				c >>= 1
			}
		}
		t[i] = c
	}
	return t
}()

// revKey identifies a cluster-map generation across revision epochs (journal field I of vbmap / config-sent).
func (b *Bucket) revKey() int64 { return b.revEpoch*1_000_000 + b.rev }
