package oracle

import (
	"fmt"

	"verif/journal"
)

// C08 — a server-requested rollback is honoured without replaying or skipping.
func init() { checkers["C08"] = checkC08 }

type c08vb struct {
	f          *journal.Off // the request that was answered with ROLLBACK
	r          uint64
	awaiting   bool
	flog       []uint64 // failover log the node returned to the failover-log query
	newUUID    uint64
	haveNew    bool
	rolled     bool
	sid        string
	emittedGtF map[uint64]bool
	seenGtF    map[uint64]bool
}

func checkC08(run *Run, res *Result) {
	st := map[vbKey]*c08vb{}
	get := func(k vbKey) *c08vb {
		if st[k] == nil {
			st[k] = &c08vb{emittedGtF: map[uint64]bool{}, seenGtF: map[uint64]bool{}}
		}
		return st[k]
	}
	ready := map[int]bool{}
	unopened := map[vbKey]int{}
	stoppedM := map[int]bool{}
	for i := range run.Evs {
		e := &run.Evs[i]
		k := vbKey{e.M, e.Vb}
		switch e.K {
		case journal.KHandler:
			if e.S == "BeforeStreamStop" {
				stoppedM[e.M] = true
			}
		case journal.KReady:
			ready[e.M] = true
			for kk, n := range unopened {
				if kk.m == e.M {
					res.violate("C08", "R5-ready-without-rolled-back-vbucket", e.N, fmt.Sprintf("vb=%d", kk.vb),
						"member %d signalled readiness although vb %d, whose stream request was answered with a rollback (event #%d), was never reopened", e.M, kk.vb, n)
				}
			}
		case journal.KFlog:
			get(k).flog = e.L
		case journal.KSReq:
			if e.Off == nil {
				continue
			}
			v := get(k)
			switch {
			case e.S2 == "0x23" && !v.awaiting:
				if v.rolled || ready[e.M] {
					res.probe("rollback-on-a-re-open")
				}
				// a new episode (seqnos above the rollback point now belong to another history)
				v.emittedGtF, v.seenGtF, v.rolled, v.haveNew = map[uint64]bool{}, map[uint64]bool{}, false, false
				v.f, v.r, v.awaiting = e.Off, e.U2, true
				unopened[k] = e.N
				res.probe("rollback-requested")
			case v.awaiting:
				// the re-request
				var wantUUID uint64
				for j := 0; j+1 < len(v.flog); j += 2 { // newest first: the first entry whose start <= R is the branch containing R
					if v.flog[j+1] <= v.r {
						wantUUID = v.flog[j]
						break
					}
				}
				got := offTuple(e.Off)
				want := tuple{wantUUID, v.r, v.r, v.r}
				if got != want {
					res.violate("C08", "R1-re-request-fields", e.N, fmt.Sprintf("vb=%d", e.Vb),
						"member %d vb %d: after 'roll back to %d' the stream was re-requested with %s; expected %s (branch of the failover log %v that contains %d)", e.M, e.Vb, v.r, got, want, v.flog, v.r)
				}
				if e.Off.Latest != v.f.Latest {
					res.violate("C08", "R1-re-request-end", e.N, fmt.Sprintf("vb=%d", e.Vb), "member %d vb %d: re-requested with end %d, the original request had end %d", e.M, e.Vb, e.Off.Latest, v.f.Latest)
				}
				if e.S2 == "ok" {
					v.awaiting, v.rolled, v.sid = false, true, e.ID
					delete(unopened, k)
					if len(e.L) >= 2 {
						v.newUUID, v.haveNew = e.L[0], true
					}
					res.probe("rollback-honoured")
				} else if e.S2 == "0x23" {
					v.r = e.U2 // rolled back again
					res.probe("second-rollback")
				} else {
					res.probe("re-request-failed")
				}
			}
		case journal.KEmit:
			v := st[k]
			if v == nil || !v.rolled || v.sid != e.ID || !isDocKind(e.S) || isInternalKey(e.Key) {
				continue
			}
			if e.Seq > v.f.Seq {
				v.emittedGtF[e.Seq] = true
			} else if e.Seq == v.f.Seq {
				res.probe("event-exactly-at-F")
			}
		case journal.KConsume:
			v := st[k]
			if v == nil || !v.rolled {
				continue
			}
			if e.Seq <= v.f.Seq {
				res.violate("C08", "R2-event-at-or-below-F-shown-again", e.N, fmt.Sprintf("vb=%d", e.Vb),
					"member %d vb %d: after the rollback to %d the consumer was shown seqno %d again, although position %d had already been checkpointed", e.M, e.Vb, v.r, e.Seq, v.f.Seq)
			} else {
				v.seenGtF[e.Seq] = true
			}
			if e.Off != nil && v.haveNew && e.Off.UUID != v.newUUID {
				res.violate("C08", "R3-offset-on-old-branch", e.N, fmt.Sprintf("vb=%d", e.Vb),
					"member %d vb %d seq %d: the offset carries vbUUID %d; the stream was reopened on branch %d", e.M, e.Vb, e.Seq, e.Off.UUID, v.newUUID)
			}
		case journal.KTrack:
			v := st[k]
			if v == nil || !v.rolled || e.Off == nil || stoppedM[e.M] {
				continue // (an Ack accepted after the stream was stopped lands in emptied maps: C13's subject)
			}
			if e.Off.Seq < v.f.Seq {
				res.violate("C08", "R2-position-moved-below-F", e.N, fmt.Sprintf("vb=%d", e.Vb),
					"member %d vb %d: after the rollback the tracked position was set to %d, below the checkpointed position %d", e.M, e.Vb, e.Off.Seq, v.f.Seq)
			}
		}
	}
	if run.Ended {
		for k, v := range st {
			if !v.rolled || stoppedM[k.m] {
				continue // (what a closed stream had not delivered yet is C13's business)
			}
			for s := range v.emittedGtF {
				if !v.seenGtF[s] {
					res.violate("C08", "R4-event-above-F-not-shown", len(run.Evs), fmt.Sprintf("vb=%d", k.vb),
						"member %d vb %d: seqno %d (> checkpointed %d) was emitted after the rollback but never shown to the consumer", k.m, k.vb, s, v.f.Seq)
					break
				}
			}
		}
	}
}
