package oracle

import (
	"fmt"
	"sort"

	"verif/journal"
)

// C02 — a session resumes exactly where the persisted checkpoint says.
//
// Reference model: the store content per vBucket (pre-seeded documents, then every write observed at
// the store: KV xattr writes, file images, custom-backend Save calls). For every session opened by
// Open(), the first stream request of each assigned vBucket must carry the stored tuple; or all
// zeros when it has no checkpoint; or (failover[0].uuid, H, H, H) when NO assigned vBucket has one
// and auto-reset is 'latest', H being what the node answered to that session's GET_ALL_VB_SEQNOS.
func init() { checkers["C02"] = checkC02 }

func checkC02(run *Run, res *Result) {
	cfg := &run.Cfg
	stored := map[int]*journal.Off{}
	high := map[int]map[int]uint64{}              // member -> vb -> H of the session's own seqno query
	flog := map[vbKey][]uint64{}                  // failover log the node returned to this member for the vb
	firstReq := map[vbKey]bool{}                  // first request of the session seen
	sessionHadDoc := map[int]bool{}               // member -> at session open, some assigned vBucket had a checkpoint
	sessionDocs := map[int]map[int]*journal.Off{} // member -> snapshot of the store when the session began loading
	writesRO := 0
	for i := range run.Evs {
		e := &run.Evs[i]
		k := vbKey{e.M, e.Vb}
		switch e.K {
		case journal.KHandler:
			if e.S == "BeforeStreamStart" {
				for kk := range firstReq {
					if kk.m == e.M {
						delete(firstReq, kk)
					}
				}
				snap := map[int]*journal.Off{}
				for vb, o := range stored {
					snap[vb] = o
				}
				sessionDocs[e.M] = snap
				sessionHadDoc[e.M] = len(snap) > 0
				high[e.M] = map[int]uint64{}
			}
		case journal.KNote:
			// the vBuckets' own high seqnos at the moment the member's DCP connection asked for seqnos (whatever
			// kind of seqno it asked for)
			if e.S == "vbhighs" && high[e.M] != nil {
				for j := 0; j+1 < len(e.L); j += 2 {
					high[e.M][int(e.L[j])] = e.L[j+1]
				}
			}
		case journal.KFlog:
			flog[k] = e.L
		case journal.KKVW:
			if e.Off == nil || e.Vb < 0 || !isCkptKey(e.Key) {
				continue
			}
			stored[e.Vb] = e.Off
			if e.S != "seed" {
				res.probe("checkpoint-written")
				if cfg.ReadOnly {
					writesRO++
					res.violate("C02", "R4-write-in-read-only-mode", e.N, fmt.Sprintf("vb=%d", e.Vb), "read-only metadata mode: a checkpoint for vb %d was written (%s via %s)", e.Vb, e.Off, e.S)
				}
			} else {
				res.probe("seeded:" + boundaryClass(e.Off.Seq))
			}
		case journal.KDisk:
			if e.S == "write" || e.S == "trunc" || e.S == "chunk" || e.S == "write-short" {
				if cfg.ReadOnly {
					res.violate("C02", "R4-write-in-read-only-mode", e.N, "file", "read-only metadata mode: the checkpoint file was written")
				}
				if e.S == "write" {
					now := parseFileStore(e.Raw)
					// saving is lossless through every backend: rewriting the file must keep every vBucket's
					// checkpoint it held before (nothing in the library clears single entries)
					var lost []int
					for vb := range stored {
						if _, ok := now[vb]; !ok {
							lost = append(lost, vb)
						}
					}
					if len(lost) > 0 && len(now) > 0 {
						sort.Ints(lost)
						res.violate("C02", "R5-save-dropped-stored-checkpoint", e.N, "file", "file backend: the save rewrote the checkpoint file without the entries of vBuckets %v, which it held before (the next session cannot resume them)", lost)
					}
					res.probe("file-save-judged")
					for vb := range stored {
						delete(stored, vb)
					}
					for vb, o := range now {
						stored[vb] = o
					}
				}
			}
		case journal.KReq:
			if cfg.ReadOnly && isCkptKey(e.Key) && e.S != "CMD_SUBDOCMULTILOOKUP" {
				res.violate("C02", "R4-write-in-read-only-mode", e.N, "kv", "read-only metadata mode: a %s for %s reached the store", e.S, keyStr(e.Key))
			}
		case journal.KSReq:
			if e.Off == nil || e.U&0x80 == 0 || firstReq[k] {
				continue
			}
			firstReq[k] = true
			docs := sessionDocs[e.M]
			if docs == nil {
				continue
			}
			got := offTuple(e.Off)
			h, haveH := high[e.M][e.Vb]
			wantEnd := ^uint64(0)
			if cfg.DcpMode == "finite" {
				wantEnd = h
			}
			res.probe("resume-judged:" + cfg.AutoReset + ":" + cfg.DcpMode + ":" + backendOf(cfg))
			if haveH && e.Off.Latest != wantEnd {
				res.violate("C02", "R3-requested-end", e.N, fmt.Sprintf("vb=%d", e.Vb), "member %d vb %d: requested end %d, expected %d (mode %s, high seqno sampled at open %d)", e.M, e.Vb, e.Off.Latest, wantEnd, cfg.DcpMode, h)
			}
			if d, ok := docs[e.Vb]; ok {
				if got != offTuple(d) {
					res.violate("C02", "R1-resume-differs-from-stored", e.N, fmt.Sprintf("vb=%d", e.Vb),
						"member %d vb %d: stream requested with %s, the checkpoint stored for it is %s (backend %s)", e.M, e.Vb, got, offTuple(d), backendOf(cfg))
				}
				continue
			}
			zero := tuple{}
			switch {
			case cfg.AutoReset != "latest":
				if got != zero {
					res.violate("C02", "R2-no-checkpoint-earliest", e.N, fmt.Sprintf("vb=%d", e.Vb), "member %d vb %d has no checkpoint and auto-reset is earliest, but the stream was requested with %s", e.M, e.Vb, got)
				}
			case !sessionHadDoc[e.M]:
				var uuid uint64
				if fl := flog[k]; len(fl) >= 2 {
					uuid = fl[0]
				}
				want := tuple{uuid, h, h, h}
				if haveH && got != want {
					res.violate("C02", "R2-no-checkpoint-latest", e.N, fmt.Sprintf("vb=%d", e.Vb),
						"member %d vb %d: no assigned vBucket has a checkpoint and auto-reset is latest: expected %s (current branch, high seqno), requested %s", e.M, e.Vb, want, got)
				}
				res.probe("latest-reset")
			default:
				// some vBuckets have a checkpoint, this one has none, auto-reset latest: unspecified (zeros or high accepted)
				if got != zero && !(haveH && got.seq == h && got.ss == h && got.se == h) {
					res.violate("C02", "R2-no-checkpoint-partial", e.N, fmt.Sprintf("vb=%d", e.Vb), "member %d vb %d has no checkpoint (others have): requested %s, neither zeros nor the high seqno %d", e.M, e.Vb, got, h)
				}
			}
		}
	}
	// no fault was scripted, every stored checkpoint is readable and lies at or below its vBucket's high seqno:
	// the session must be requested, not refused
	expectDeath, anyReq := false, false
	for i := range run.Evs {
		switch e := &run.Evs[i]; e.K {
		case journal.KExpect:
			expectDeath = true
		case journal.KSReq:
			anyReq = true
		}
	}
	if res.DeathKind == "library-failstop" && !expectDeath && !anyReq {
		res.violate("C02", "R6-start-up-refused", len(run.Evs), "plain", "the client terminated during start-up (%s) although nothing was wrong with the stored checkpoints: no stream was requested", res.FailStop)
	}
	// custom backend in read-only mode: no Save call at all
	if cfg.ReadOnly {
		for i := range run.Evs {
			if e := &run.Evs[i]; e.K == "metacall" && e.S == "Save" {
				res.violate("C02", "R4-write-in-read-only-mode", e.N, "custom", "read-only metadata mode: Save() was called on the custom metadata backend")
				break
			}
		}
		res.probe("read-only-session")
	}
}

func backendOf(cfg *Cfg) string {
	b := cfg.Metadata
	if cfg.Extra["backend"] == "custom" {
		b = "custom"
	} else if cfg.MetaBucket != cfg.Bucket {
		b += "-other-bucket"
	}
	if cfg.ReadOnly {
		b += "+readonly"
	}
	return b
}

func boundaryClass(v uint64) string {
	switch {
	case v == 0:
		return "0"
	case v < 1<<31:
		return "small"
	case v < 1<<53:
		return "2^31..2^53"
	case v < 1<<63:
		return "2^53..2^63"
	}
	return ">=2^63"
}
