#!/usr/bin/env python3
"""Import wave-7 sub-agent changes from /tmp/seeded_out7/<prop>/{a,b} into /verif/seeded/<prop>{i,j}/."""
import json, os, re, shutil, sys, glob
SRC='/tmp/seeded_out7'
import json as _j
needs = _j.load(open("/tmp/seeded_out7/needs.json")) if os.path.exists("/tmp/seeded_out7/needs.json") else {
}
for prop in sorted(os.listdir(SRC)):
    pd=os.path.join(SRC,prop)
    if not os.path.isdir(pd): continue
    for sub,suf in (('a','k'),):
        d=os.path.join(pd,sub)
        if not os.path.isdir(d) or not os.path.exists(os.path.join(d,'demo_path.txt')) or not os.path.exists(os.path.join(d,'needs.txt')): print('missing',d); continue
        sid=prop+suf
        out=f'/verif/seeded/{sid}'
        os.makedirs(out,exist_ok=True)
        shutil.copy(os.path.join(d,'patch.diff'),out+'/patch.diff')
        dp=open(os.path.join(d,'demo_path.txt')).read()
        demos={}
        for f in sorted(glob.glob(d+'/*.go')):
            fn=os.path.basename(f)
            m=re.search(r'((?:[A-Za-z0-9_./-]+/)?)'+re.escape(fn), dp.replace(d+'/',''))
            target=fn
            for mm in re.finditer(r'([A-Za-z0-9_-]+(?:/[A-Za-z0-9_-]+)*/)'+re.escape(fn), dp):
                pre=mm.group(1)
                if pre.startswith('tmp/') or 'seeded_out' in pre or pre.startswith('/'): continue
                target=pre+fn; break
            demos[fn]=target
            shutil.copy(f,out+'/'+fn)
        cmds=[l.strip() for l in dp.splitlines() if l.strip().startswith('go test')]
        cmd=' && '.join(dict.fromkeys(cmds)) if cmds else ''
        shutil.copy(os.path.join(d,'meta.md'),out+'/agent_meta.md')
        shutil.copy(os.path.join(d,'demo_path.txt'),out+'/demo_path.txt')
        meta=dict(id=sid,property=prop,breaks=prop,needs_to_manifest=(open(os.path.join(d,'needs.txt')).read().strip() if os.path.exists(os.path.join(d,'needs.txt')) else needs.get(sid,'')),demo_files=demos,demo_cmd=cmd,wave=7,base_commit='1caada9')
        json.dump(meta,open(out+'/meta.json','w'),indent=1)
        print(sid,demos,cmd[:100])
