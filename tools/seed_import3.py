#!/usr/bin/env python3
"""Import wave-3 sub-agent changes from /tmp/seeded_out3/<prop>/{a,b} into /verif/seeded/<prop>{c,d}/."""
import json, os, re, shutil, sys, glob
SRC='/tmp/seeded_out3'
needs = {
 'C01c': "one Offset object reused per snapshot by the observer: a later delivery of the same snapshot moves the settled position and the meaning of an older Ack; save while an event is in flight / batched ack, then crash",
 'C01d': "autoReset=latest and an incomplete checkpoint document set at restart (crash part-way through the first save, or a never-dirty vBucket): every vBucket is reset to the high seqno, skipping delivered-but-unacked events",
 'C02c': "Save builds documents only for dirty vBuckets: with the file backend a later save with a smaller dirty set drops earlier checkpoints; restart cannot resume that vBucket",
 'C02d': "file backend: any read error of the checkpoint file is treated as 'no checkpoint yet' (EMFILE/EACCES/EIO at load): streams requested from zero / latest instead of refusing",
 'C03c': "catch-up flag consumed by a snapshot marker whose start equals the failed seqno after a rollback: the event at exactly that seqno is delivered again",
 'C03d': "skipUntil switched off for the whole member once any vBucket sees a new event: old events of other vBuckets / later sessions are delivered",
 'C04c': "range end computed one vBucket too wide: after a shrinking rebalance the late ack of the first vBucket past the range is tracked and saved",
 'C04d': "regression guard only within one fail-over branch: after a stream end + reopen on a new vbUUID the late ack of a pre-failover copy moves the position back",
 'C05c': "re-mark after a failed save replaces the dirty set: a vBucket acknowledged during the failing store call loses its mark and is never stored",
 'C05d': "Save uses TryLock: a Commit / final save issued while another save is in flight is skipped, the position acknowledged after the first dump is never written",
 'C06c': "snapshot marker object overwritten in place: offsets already handed out change their range when the next marker arrives",
 'C06d': "checkpoint documents reused between saves without refreshing vbUUID: after a stream end + reopen on a new branch the stored document mixes old uuid with new seqno",
 'C07c': "closed check moved before the gate: an event waiting at the rollback-mitigation gate when the stream closes is delivered although not covered",
 'C07d': "absent flag of a replica slot survives a cluster-map change with the same replica count: the newly assigned lagging replica is ignored by the threshold",
 'C08c': "SetCatchup moved out of the open-stream callback: replayed events <= F can reach the observer before the filter is armed",
 'C08d': "control events consume the catch-up flag: a replayed snapshot starting exactly at F delivers the event at F again",
 'C10c': "monitor re-reads the index CAS right before the conditional write: a register() between read and rewrite is overwritten; the newcomer is never admitted (and panics)",
 'C10d': "leader skips the round when its own info already is 1/total: a follower swap that keeps the group size is never renumbered",
 'C11c': "rebalance timer always stop+reset: a notification after the timer fired re-arms the reopen half only: reopen without close, unlock of unlocked mutex",
 'C11d': "closed check moved before the rollback-mitigation wait: an event waiting in its observer when a rebalance closes the stream is delivered inside the closed window",
 'C12c': "a vBucket being re-opened is not counted active: while its reopen is in flight all other vBuckets end for good and the client stops",
 'C12d': "close-finish flag reset moved from Open to Close: after a rebalance, a finite run whose vBuckets all end never stops",
 'C13c': "Save uses TryLock: Close() while a slow save is in flight skips the final save; the position acknowledged after that save's dump is lost",
 'C13d': "closeWithCancel set at the end of Close: a stream ending with a connection-type error during closeAllStreams is reopened during shutdown",
 'C14c': "after a successful save every vBucket whose live seqno differs from the dump is re-marked: a reserved-prefix event absorbed during the store call triggers an endless write loop",
 'C14d': "absorbed events leave a false entry in the dirty map and a failed save re-marks every entry: after one failed save vBuckets that only absorbed the library's own writes are written",
 'C15c': "open errors collected last-result-wins: a failed stream open followed by a successful one lets Open() proceed with part of the assignment",
 'C15d': "checkpoint-ahead guard reads the snapshot start instead of the seqno: a checkpoint inside a snapshot above the flushed high seqno is accepted",
 'C16c': "scrape guard switched to IsOpen(): a scrape between 'observers = nil' and 'open = false' of a stop panics",
 'C16d': "active-stream count decremented on every stream end, never re-incremented after a successful reopen",
 'C19c': "failure counter kept in the struct and never reset: failures of earlier (recovered) rounds count towards the five",
 'C19d': "cancellation during the retry wait falls through into the fail-stop: Stop() inside a failing round panics",
 'C20c': "Resolve non-blocking + unbuffered signal: a completion arriving before Wait parks is lost (deadline error for a confirmed operation, or a hang without deadline)",
 'C20d': "GetXattrs takes its deadline from the context: Load passes context.Background(), so a silent node hangs the checkpoint read forever",
}
for prop in sorted(os.listdir(SRC)):
    pd=os.path.join(SRC,prop)
    if not os.path.isdir(pd): continue
    for sub,suf in (('a','c'),('b','d')):
        d=os.path.join(pd,sub)
        if not os.path.isdir(d): print('missing',d); continue
        sid=prop+suf
        out=f'/verif/seeded/{sid}'
        os.makedirs(out,exist_ok=True)
        shutil.copy(os.path.join(d,'patch.diff'),out+'/patch.diff')
        dp=open(os.path.join(d,'demo_path.txt')).read()
        demos={}
        for f in sorted(glob.glob(d+'/*.go')):
            fn=os.path.basename(f)
            m=re.search(r'((?:[A-Za-z0-9_./-]+/)?)'+re.escape(fn), dp.replace(d+'/',''))
            target=fn
            for mm in re.finditer(r'([A-Za-z0-9_-]+(?:/[A-Za-z0-9_-]+)*/)'+re.escape(fn), dp):
                pre=mm.group(1)
                if pre.startswith('tmp/') or 'seeded_out' in pre or pre.startswith('/'): continue
                target=pre+fn; break
            demos[fn]=target
            shutil.copy(f,out+'/'+fn)
        cmds=[l.strip() for l in dp.splitlines() if l.strip().startswith('go test')]
        cmd=' && '.join(dict.fromkeys(cmds)) if cmds else ''
        shutil.copy(os.path.join(d,'meta.md'),out+'/agent_meta.md')
        shutil.copy(os.path.join(d,'demo_path.txt'),out+'/demo_path.txt')
        meta=dict(id=sid,property=prop,breaks=prop,needs_to_manifest=needs.get(sid,''),demo_files=demos,demo_cmd=cmd,wave=3,base_commit='1caada9')
        json.dump(meta,open(out+'/meta.json','w'),indent=1)
        print(sid,demos,cmd[:100])
