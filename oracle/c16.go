package oracle

import (
	"encoding/json"
	"fmt"
	"sort"
	"strconv"
	"strings"

	"verif/journal"
)

// C16 — exposed metrics and state endpoints tell the truth.
//
// Reference model per (member, vb): the tracked offset (loaded tuple, then position reports), the
// number of document events of each kind the server emitted on the current stream that passed the
// library's filters, split into "finished" (ConsumeEvent returned / internal-key event absorbed) and
// "emitted"; the high seqnos the node returned to the scrape's own GET_ALL_VB_SEQNOS.
func init() { checkers["C16"] = checkC16 }

type c16vb struct {
	off      tuple
	have     bool
	sid      string
	emitted  map[string]int
	finished map[string]int
	pending  map[uint64]string // seqno -> kind of internal-key events not yet absorbed
}

func metricVb(name, prefix string) (int, bool) {
	if !strings.HasPrefix(name, prefix+"{vbId=") {
		return 0, false
	}
	v, err := strconv.Atoi(strings.TrimSuffix(strings.TrimPrefix(name, prefix+"{vbId="), "}"))
	return v, err == nil
}

func checkC16(run *Run, res *Result) {
	cfg := &run.Cfg
	st := map[vbKey]*c16vb{}
	get := func(k vbKey) *c16vb {
		if st[k] == nil {
			st[k] = &c16vb{emitted: map[string]int{}, finished: map[string]int{}, pending: map[uint64]string{}}
		}
		return st[k]
	}
	type scrapeCall struct {
		n    int
		high map[int]uint64
		all  map[int][]uint64
	}
	calls := map[int]*scrapeCall{}
	inHook := map[int]bool{} // member -> scrape in progress
	open := map[int]bool{}
	closing := map[int]bool{}
	assigned := map[int]map[int]bool{}
	rebalances := map[int]int{}
	inAck := map[vbKey]bool{}
	loading := map[int]bool{}
	lastInfo := map[int][2]int{}
	inEffect := map[int][2]int{}
	openingSess := map[int]bool{}
	for i := range run.Evs {
		e := &run.Evs[i]
		k := vbKey{e.M, e.Vb}
		switch e.K {
		case journal.KHandler:
			switch e.S {
			case "BeforeStreamStart":
				for kk := range st {
					if kk.m == e.M {
						delete(st, kk)
					}
				}
				assigned[e.M] = map[int]bool{}
				loading[e.M] = true
				openingSess[e.M] = true
				if li, ok := lastInfo[e.M]; ok {
					inEffect[e.M] = li
				}
			case "AfterStreamStart":
				open[e.M] = true
				openingSess[e.M] = false
			case "BeforeStreamStop":
				open[e.M] = false
			case "AfterRebalanceEnd":
				rebalances[e.M]++
			}
		case journal.KPublish:
			lastInfo[e.M] = [2]int{int(e.I), int(e.U)}
		case journal.KCall:
			if e.S == "scrape" {
				calls[e.M] = &scrapeCall{n: e.N, high: map[int]uint64{}, all: map[int][]uint64{}}
				inHook[e.M] = strings.HasPrefix(e.S2, "inside ")
			}
			if e.S == "Close" {
				closing[e.M] = true
			}
		case journal.KSeqnos:
			if c := calls[e.M]; c != nil && e.S == "d" {
				for j := 0; j+1 < len(e.L); j += 2 {
					c.all[int(e.L[j])] = append(c.all[int(e.L[j])], e.L[j+1]) // (another query of the same member - a session being opened - may be answered in the window too)
					if e.L[j+1] > c.high[int(e.L[j])] {
						c.high[int(e.L[j])] = e.L[j+1]
					}
				}
			}
		case journal.KReq:
			if e.S == "CMD_DCPSTREAMREQ" {
				loading[e.M] = false // the offsets were loaded before the first stream request was issued
			}
		case journal.KSReq:
			if e.S2 != "ok" || e.Off == nil {
				continue
			}
			v := get(k)
			v.sid = e.ID
			if assigned[e.M] == nil {
				assigned[e.M] = map[int]bool{}
			}
			assigned[e.M][e.Vb] = true
			if !v.have && e.U&0x80 != 0 {
				v.off, v.have = offTuple(e.Off), true
			}
		case journal.KEmit:
			v := st[k]
			if v == nil || v.sid != e.ID || !isDocKind(e.S) {
				continue
			}
			if cfg.SkipUntil && int64(uint64(e.I)/1_000_000_000) < cfg.SkipUntilSec {
				continue
			}
			v.emitted[e.S]++
			if isInternalKey(e.Key) {
				v.pending[e.Seq] = e.S
			}
		case journal.KConsEnd:
			// the counter is bumped right after the listener returned
			if v := st[k]; v != nil {
				for j := i - 1; j >= 0; j-- {
					if run.Evs[j].K == journal.KConsume && run.Evs[j].ID == e.ID {
						v.finished[run.Evs[j].S]++
						break
					}
				}
			}
		case journal.KAck:
			inAck[k] = true
		case journal.KAckEnd:
			inAck[k] = false
		case journal.KTrack:
			if e.Off == nil || loading[e.M] || !open[e.M] && !openingSess[e.M] {
				continue // closed window / offsets not loaded yet: whatever is tracked there is discarded by the load
			}
			v := get(k)
			if !v.have || e.Off.Seq >= v.off.seq {
				v.off, v.have = offTuple(e.Off), true
			}
			if kind, ok := v.pending[e.Off.Seq]; ok && !inAck[k] {
				delete(v.pending, e.Off.Seq)
				v.finished[kind]++
			}
		case journal.KAPI:
			// the state endpoint: GET /states/offset lists exactly the tracked positions of the session in effect
			if !strings.HasPrefix(e.S, "GET /states/offset") || e.I != 200 || !strings.HasPrefix(e.S2, "{") || !open[e.M] || closing[e.M] {
				continue
			}
			var body map[string]struct {
				SeqNo      uint64
				StartSeqNo uint64
				EndSeqNo   uint64
			}
			if err := json.Unmarshal([]byte(e.S2), &body); err != nil {
				continue
			}
			res.probe("offsets-api-judged")
			var vbs []int
			for s := range body {
				if vb, err := strconv.Atoi(s); err == nil {
					vbs = append(vbs, vb)
				}
			}
			sort.Ints(vbs)
			for _, vb := range vbs {
				o := body[strconv.Itoa(vb)]
				if len(assigned[e.M]) > 0 && !assigned[e.M][vb] {
					res.violate("C16", "R1-offsets-api", e.N, fmt.Sprintf("vb=%d", vb), "member %d: GET /states/offset lists vb %d, which is not in the member's assigned range", e.M, vb)
					continue
				}
				if v := st[vbKey{e.M, vb}]; v != nil && v.have && !inAck[vbKey{e.M, vb}] {
					if o.SeqNo != v.off.seq {
						res.violate("C16", "R1-offsets-api", e.N, fmt.Sprintf("vb=%d", vb), "member %d vb %d: GET /states/offset says seqNo %d, tracked position is %d", e.M, vb, o.SeqNo, v.off.seq)
					}
				}
			}
		case journal.KScrape:
			c := calls[e.M]
			delete(calls, e.M)
			if c == nil {
				continue
			}
			if inHook[e.M] {
				// a scrape from inside a lifecycle callback sees the stream between two states: it must neither
				// block nor crash (R5); its values are not compared
				res.probe("scrape-inside-callback")
				continue
			}
			res.probe("scrape-judged")
			if !open[e.M] {
				res.probe("scrape-while-closed-or-closing")
			}
			var names []string
			for n := range e.F {
				names = append(names, n)
			}
			sort.Strings(names)
			var sumLag float64
			lagSeen := false
			for _, name := range names {
				val := e.F[name]
				if vb, ok := metricVb(name, "cbgo_seq_no_current"); ok {
					if v := st[vbKey{e.M, vb}]; v != nil && v.have && !inAck[vbKey{e.M, vb}] && open[e.M] {
						if uint64(val) != v.off.seq {
							res.violate("C16", "R1-seq-gauge", e.N, fmt.Sprintf("vb=%d", vb), "member %d vb %d: cbgo_seq_no_current=%v, tracked position is %d", e.M, vb, val, v.off.seq)
						}
						if s, ok := e.F[fmt.Sprintf("cbgo_start_seq_no_current{vbId=%d}", vb)]; ok && uint64(s) != v.off.ss {
							res.violate("C16", "R1-snapshot-gauge", e.N, fmt.Sprintf("vb=%d", vb), "member %d vb %d: cbgo_start_seq_no_current=%v, tracked snapshot start is %d", e.M, vb, s, v.off.ss)
						}
						if s, ok := e.F[fmt.Sprintf("cbgo_end_seq_no_current{vbId=%d}", vb)]; ok && uint64(s) != v.off.se {
							res.violate("C16", "R1-snapshot-gauge", e.N, fmt.Sprintf("vb=%d", vb), "member %d vb %d: cbgo_end_seq_no_current=%v, tracked snapshot end is %d", e.M, vb, s, v.off.se)
						}
					}
				}
				if vb, ok := metricVb(name, "cbgo_lag_current"); ok {
					lagSeen = true
					sumLag += val
					seq, okS := e.F[fmt.Sprintf("cbgo_seq_no_current{vbId=%d}", vb)]
					h, okH := c.high[vb]
					if okS && okH {
						want := 0.0
						if float64(h) > seq {
							want = float64(h) - seq
						}
						if h < uint64(seq) {
							res.probe("high-seqno-below-position")
						}
						for _, hh := range c.all[vb] {
							alt := 0.0
							if float64(hh) > seq {
								alt = float64(hh) - seq
							}
							if val == alt {
								want = alt // the scrape used this answer
							}
						}
						if val != want {
							res.violate("C16", "R2-lag", e.N, fmt.Sprintf("vb=%d", vb), "member %d vb %d: cbgo_lag_current=%v but the node reported high seqno %d to this scrape and the reported position is %v (expected max(0, high-seq)=%v)", e.M, vb, val, h, seq, want)
						}
					}
				}
				for kind, prefix := range map[string]string{"mut": "cbgo_mutation_total", "del": "cbgo_deletion_total", "exp": "cbgo_expiration_total"} {
					if vb, ok := metricVb(name, prefix); ok {
						v := st[vbKey{e.M, vb}]
						if v == nil || !open[e.M] || closing[e.M] {
							continue
						}
						lo, hi := v.finished[kind], v.emitted[kind]
						if int(val) < lo || int(val) > hi {
							res.violate("C16", "R3-event-counter", e.N, fmt.Sprintf("vb=%d", vb), "member %d vb %d: %s=%v but %d such events finished processing and %d were emitted on the current stream", e.M, vb, prefix, val, lo, hi)
						}
						res.probe("counter-judged")
					}
				}
			}
			if tl, ok := e.F["cbgo_total_lag_current"]; ok && lagSeen && tl != sumLag {
				res.violate("C16", "R2-total-lag", e.N, "plain", "member %d: cbgo_total_lag_current=%v but the per-vBucket lags sum to %v", e.M, tl, sumLag)
			}
			if as, ok := e.F["cbgo_active_stream_current"]; ok && open[e.M] && !closing[e.M] {
				if want := len(assigned[e.M]); int(as) != want && cfg.DcpMode != "finite" {
					res.violate("C16", "R4-active-streams", e.N, "plain", "member %d: cbgo_active_stream_current=%v, %d assigned vBucket streams are open", e.M, as, want)
				}
			}
			if rb, ok := e.F["cbgo_rebalance_current"]; ok && int(rb) != rebalances[e.M] && open[e.M] {
				res.violate("C16", "R4-rebalance-count", e.N, "plain", "member %d: cbgo_rebalance_current=%v, %d rebalances were completed", e.M, rb, rebalances[e.M])
			}
			if ie, ok := inEffect[e.M]; ok && cfg.Membership != "static" && open[e.M] && !closing[e.M] {
				lo, hi := partition(cfg.NVb, ie[1], ie[0])
				tm, mn := e.F["cbgo_total_members_current"], e.F["cbgo_member_number_current"]
				rs, re := e.F["cbgo_vbucket_range_start_current"], e.F["cbgo_vbucket_range_end_current"]
				if int(tm) != ie[1] || int(mn) != ie[0] || int(rs) != lo || int(re) != hi {
					res.violate("C16", "R4-membership", e.N, "plain",
						"member %d: gauges say member %v/%v, vBuckets %v-%v; the membership in effect is %d/%d, vBuckets %d-%d", e.M, mn, tm, rs, re, ie[0], ie[1], lo, hi)
				}
				res.probe("group-gauges-judged")
			}
			if tm, ok := e.F["cbgo_total_members_current"]; ok && cfg.Membership == "static" && int(tm) != cfg.TotalMembers {
				res.violate("C16", "R4-membership", e.N, "plain", "member %d: cbgo_total_members_current=%v, configured group size is %d", e.M, tm, cfg.TotalMembers)
			}
			if mn, ok := e.F["cbgo_member_number_current"]; ok && cfg.Membership == "static" && int(mn) != cfg.MemberNumber {
				res.violate("C16", "R4-membership", e.N, "plain", "member %d: cbgo_member_number_current=%v, configured member number is %d", e.M, mn, cfg.MemberNumber)
			}
			if rs, ok := e.F["cbgo_vbucket_range_start_current"]; ok && cfg.Membership == "static" && cfg.TotalMembers == 1 {
				re := e.F["cbgo_vbucket_range_end_current"]
				if int(rs) != 0 || int(re) != cfg.NVb-1 {
					res.violate("C16", "R4-vbucket-range", e.N, "plain", "member %d: vBucket range gauges say %v-%v, the member owns 0-%d", e.M, rs, re, cfg.NVb-1)
				}
			}
		}
	}
	// a scrape that never returned although the run went through its quiesce phase
	if run.Ended {
		for m, c := range calls {
			res.violate("C16", "R5-scrape-blocked", c.n, "plain", "member %d: the scrape begun at event #%d never returned", m, c.n)
		}
	}
	// R5: a scrape never crashes the process, whatever state the stream is in
	if res.DeathKind == "runtime-panic" || res.DeathKind == "library-failstop" {
		openScrape := map[string]*journal.Ev{}
		for i := range run.Evs {
			e := &run.Evs[i]
			if e.K == journal.KCall && e.S == "scrape" {
				openScrape[e.ID] = e
			}
			if e.K == journal.KRet && e.S == "scrape" {
				delete(openScrape, e.ID)
			}
		}
		for _, e := range openScrape {
			res.violate("C16", "R5-scrape-crashed", len(run.Evs), "plain", "member %d: the process died while a scrape (%s, event #%d) was in progress: %s", e.M, e.S2, e.N, res.FailStop)
			break
		}
	}
}
