//go:build verif

// Package vsync is added to the go-dcp module by the simulator's build overlay (it does not exist in
// the repository). Mutex has sync.Mutex semantics but blocks on a channel, so a goroutine waiting
// for it is durably blocked inside a testing/synctest bubble.
package vsync

import "sync"

type Mutex struct {
	once sync.Once
	ch   chan struct{}
}

func (m *Mutex) init() { m.once.Do(func() { m.ch = make(chan struct{}, 1) }) }

func (m *Mutex) Lock() { m.init(); m.ch <- struct{}{} }

func (m *Mutex) TryLock() bool {
	m.init()
	select {
	case m.ch <- struct{}{}:
		return true
	default:
		return false
	}
}

func (m *Mutex) Unlock() {
	m.init()
	select {
	case <-m.ch:
	default:
		panic("sync: unlock of unlocked mutex")
	}
}

// RWMutex is a (writer-only) durable stand-in: readers take the exclusive lock.
type RWMutex struct{ Mutex }

func (m *RWMutex) RLock()   { m.Lock() }
func (m *RWMutex) RUnlock() { m.Unlock() }

// Once has sync.Once semantics; callers that arrive while the first is still inside f wait on a
// channel (durably blocked in a synctest bubble) instead of on sync.Once's internal mutex.
type Once struct {
	mu   Mutex
	done chan struct{}
	ran  bool
}

func (o *Once) Do(f func()) {
	o.mu.Lock()
	if o.done == nil {
		o.done = make(chan struct{})
	}
	if o.ran {
		ch := o.done
		o.mu.Unlock()
		<-ch
		return
	}
	o.ran = true
	ch := o.done
	o.mu.Unlock()
	defer close(ch)
	f()
}

// YieldHook, when set by the simulator, parks the calling goroutine at an armed pre-emption point until
// the scheduler resumes it. Unset (always, outside the simulator's worker): Yield is a no-op.
var YieldHook func(site string)

func Yield(site string) {
	if h := YieldHook; h != nil {
		h(site)
	}
}
