package oracle

import (
	"fmt"
	"sort"
	"strings"

	"verif/journal"
)

// C12 — stream ends are recovered, counted and terminate the client correctly.
func init() { checkers["C12"] = checkC12 }

var transientEnd = map[int64]bool{2: true, 3: true, 4: true, 5: true} // state-changed, disconnected, too-slow, backfill-failed

type c12vb struct {
	havePos          bool
	sid              string
	open             bool
	final            bool // ended for good
	finalN           int
	awaiting         bool // transient end seen, re-open expected
	awaitN           int
	awaitT           int64
	posAtEnd         uint64
	pos              uint64
	end              uint64 // requested end (finite mode)
	emittedLE        map[uint64]bool
	emittedBeforeEnd map[uint64]bool // emitted on the current stream, not yet delivered
	delivered        map[uint64]bool
	fails            int
}

// checkC12r: the rebalance variant (scenario C12r, finite mode). One rule: once every vBucket stream of the
// session in effect has ended for good (status ok: the requested end was reached), the client stops.
func checkC12r(run *Run, res *Result) {
	cfg := &run.Cfg
	bound := int64(10_000_000_000) + cfg.CkptTimeout
	type sess struct {
		open     map[int]string // vb -> sid
		ended    map[int]bool
		started  bool
		allEndT  int64
		allEndN  int
		sessions int
		awaiting map[int][2]int64 // vb -> (time, event number) of a transient end whose re-open is due
		quietN   bool             // no stop / rebalance in progress
	}
	ms := map[int]*sess{}
	get := func(m int) *sess {
		if ms[m] == nil {
			ms[m] = &sess{open: map[int]string{}, ended: map[int]bool{}, allEndT: -1, awaiting: map[int][2]int64{}}
		}
		return ms[m]
	}
	parked := false
	for k := range res.Probes {
		if strings.HasPrefix(k, "parked-at:stream.wait") {
			parked = true // the stale-finish-token family: judged by R4 only
		}
	}
	stopped := map[int]bool{}
	closeCalled := map[int]bool{}
	var endT int64
	for i := range run.Evs {
		e := &run.Evs[i]
		if e.T > endT {
			endT = e.T
		}
		switch e.K {
		case journal.KHandler:
			s := get(e.M)
			switch e.S {
			case "BeforeStreamStart":
				s.open, s.ended, s.started, s.allEndT = map[int]string{}, map[int]bool{}, false, -1
				s.sessions++
				s.awaiting = map[int][2]int64{}
			case "AfterStreamStart":
				s.started = true
			case "BeforeStreamStop", "BeforeRebalanceStart":
				s.started = false
				s.awaiting = map[int][2]int64{} // the session is being closed: nothing is re-opened any more
			}
		case journal.KSReq:
			if e.S2 == "ok" {
				get(e.M).open[e.Vb] = e.ID
			}
			if s := get(e.M); len(s.awaiting) > 0 {
				if _, ok := s.awaiting[e.Vb]; ok {
					delete(s.awaiting, e.Vb)
					if s.sessions > 1 {
						res.probe("reopened-after-transient-end:after-a-rebalance")
					}
				}
			}
		case journal.KEmit:
			s := get(e.M)
			if e.S == "end" && s.open[e.Vb] == e.ID {
				if e.I == 0 {
					s.ended[e.Vb] = true
					res.probe("final-end")
				}
				if transientEnd[e.I] && s.started && !closeCalled[e.M] && !stopped[e.M] && !parked {
					s.awaiting[e.Vb] = [2]int64{e.T, int64(e.N)}
				}
				delete(s.open, e.Vb)
				if len(s.open) == 0 && len(s.ended) > 0 && s.allEndT < 0 {
					all := true
					for range s.ended {
					}
					if all {
						s.allEndT, s.allEndN = e.T, e.N
						if s.sessions > 1 {
							res.probe("finite-completion-after-rebalance")
						}
					}
				}
			}
		case journal.KCall:
			if e.S == "Close" {
				closeCalled[e.M] = true
			}
		case journal.KRet:
			if e.S == "Start" {
				stopped[e.M] = true
				res.probe("client-stopped-after-last-final-end")
				if s := get(e.M); len(s.awaiting) > 0 && !closeCalled[e.M] {
					for _, vb := range sortedKeys(s.awaiting) {
						res.violate("C12", "R4-stopped-with-live-vbuckets", e.N, "plain",
							"member %d (finite mode, session %d): the client stopped although the stream of vb %d had ended with a re-openable status (event #%d) and was never re-opened", e.M, s.sessions, vb, s.awaiting[vb][1])
					}
					s.awaiting = map[int][2]int64{}
				}
			}
		}
	}
	if res.DeathKind != "" || !run.Ended {
		return
	}
	for _, m := range sortedKeys(ms) {
		s := ms[m]
		for _, vb := range sortedKeys(s.awaiting) {
			if a := s.awaiting[vb]; endT-a[0] > 15_000_000_000 && !stopped[m] {
				res.violate("C12", "R1-never-reopened", int(a[1]), "plain",
					"member %d vb %d (session %d): the stream ended with a re-openable status and was not re-opened within %s", m, vb, s.sessions, fmtDur(endT-a[0]))
			}
		}
	}
	for m, s := range ms {
		if s.allEndT >= 0 && s.started && !stopped[m] && !closeCalled[m] && endT-s.allEndT > bound && len(s.open) == 0 {
			res.violate("C12", "R4-did-not-stop-after-last-final-end", s.allEndN, "after-rebalance-membership-"+cfg.Membership,
				"member %d (finite mode, session %d): every vBucket stream had ended for good at event #%d; %s later the client still has not stopped", m, s.sessions, s.allEndN, fmtDur(endT-s.allEndT))
		}
	}
}

func checkC12(run *Run, res *Result) {
	if run.Cfg.Prop == "C12r" {
		checkC12r(run, res)
		// runs in which a wait() goroutine was parked around its finish token belong to the stale-token family
		for i := range res.Violations {
			if res.Violations[i].Rule == "C12/R4-did-not-stop-after-last-final-end" {
				res.Violations[i].Sig = "plain"
			}
		}
		markPreemptedWait(run, res, "C12/R4-did-not-stop-after-last-final-end")
		for i := range res.Violations {
			if res.Violations[i].Sig == "plain" {
				res.Violations[i].Sig = "after-rebalance-membership-" + run.Cfg.Membership
			}
		}
		return
	}
	cfg := &run.Cfg
	st := map[vbKey]*c12vb{}
	get := func(k vbKey) *c12vb {
		if st[k] == nil {
			st[k] = &c12vb{emittedLE: map[uint64]bool{}, delivered: map[uint64]bool{}}
		}
		return st[k]
	}
	ready := map[int]bool{}
	opening := map[int]bool{}
	closing := map[int]bool{}
	stoppedN := map[int]int{}
	var stoppedT = map[int]int64{}
	lastFinalT := map[int]int64{}
	assigned := map[int]int{}
	inScrape := map[int]bool{}
	scrapeDirty := map[int]bool{}
	finalCount := func(m int) int {
		n := 0
		for k, v := range st {
			if k.m == m && v.final {
				n++
			}
		}
		return n
	}
	markEnd := func(e *journal.Ev, k vbKey, status int64, socket bool) {
		v := get(k)
		if !v.open {
			return
		}
		v.open = false
		scrapeDirty[k.m] = true
		tr := socket || transientEnd[status]
		if closing[k.m] {
			tr = false
		}
		if tr && (ready[k.m] || opening[k.m]) { // (an already open stream may also end while Open() is still requesting the others)
			v.awaiting, v.awaitN, v.awaitT, v.posAtEnd = true, e.N, e.T, v.pos
			res.probe("transient-end")
			if v.fails > 0 || v.finalN < 0 {
				res.probe("repeated-transient-end-same-vb")
			}
			v.finalN = -1
		} else {
			v.final, v.finalN = true, e.N
			lastFinalT[k.m] = e.T
			res.probe("final-end")
		}
	}
	for i := range run.Evs {
		e := &run.Evs[i]
		k := vbKey{e.M, e.Vb}
		switch e.K {
		case journal.KHandler:
			if e.S == "BeforeStreamStart" {
				opening[e.M] = true
			}
		case journal.KReady:
			ready[e.M] = true
			assigned[e.M] = 0
			for kk := range st {
				if kk.m == e.M {
					assigned[e.M]++
				}
			}
		case journal.KCall:
			if e.S == "Close" {
				closing[e.M] = true
			}
			if e.S == "scrape" {
				inScrape[e.M], scrapeDirty[e.M] = true, false
			}
		case journal.KRet:
			if e.S == "Start" {
				stoppedN[e.M], stoppedT[e.M] = e.N, e.T
				if !closing[e.M] {
					// the client stopped on its own: legitimate iff every assigned vBucket has finally ended
					notFinal := 0
					for kk, v := range st {
						if kk.m == e.M && !v.final {
							notFinal++
						}
					}
					if notFinal > 0 {
						res.violate("C12", "R4-stopped-with-live-vbuckets", e.N, "plain",
							"member %d: Start() returned on its own although %d assigned vBucket stream(s) had not ended for good", e.M, notFinal)
					} else {
						res.probe("client-stopped-after-last-final-end")
					}
				}
			}
		case journal.KSReq:
			if e.Off == nil {
				continue
			}
			v := get(k)
			if stoppedN[e.M] > 0 {
				continue
			}
			if v.final && ready[e.M] {
				res.violate("C12", "R2-reopened-after-final-end", e.N, fmt.Sprintf("vb=%d", e.Vb),
					"member %d vb %d: a stream request follows the final end of that vBucket (event #%d)", e.M, e.Vb, v.finalN)
			}
			if v.awaiting {
				if e.Off.Seq < v.posAtEnd || e.Off.Seq > v.pos {
					res.violate("C12", "R1-reopened-from-wrong-position", e.N, fmt.Sprintf("vb=%d", e.Vb),
						"member %d vb %d: re-opened after a transient end from seqno %d; the settled position was %d when the stream ended and is %d now", e.M, e.Vb, e.Off.Seq, v.posAtEnd, v.pos)
				}
				if e.Off.Latest != v.end {
					res.violate("C12", "R1-reopened-with-wrong-end", e.N, fmt.Sprintf("vb=%d", e.Vb),
						"member %d vb %d: re-opened after a transient end with end seqno %d; the session's stream for this vBucket runs to %d", e.M, e.Vb, e.Off.Latest, v.end)
				}
				if e.S2 == "ok" {
					v.awaiting, v.fails = false, 0
					res.probe("reopened-after-transient-end")
					if len(cfg.CollectionNames) > 0 {
						res.probe("reopened-after-transient-end:filtered-stream")
					}
				} else {
					v.fails++
					if v.fails >= 5 {
						res.probe("five-reopen-failures")
					}
				}
			}
			if e.S2 == "ok" {
				v.sid, v.open, v.end = e.ID, true, e.Off.Latest
				v.emittedBeforeEnd = nil
				if !v.havePos {
					v.pos, v.havePos = e.Off.Seq, true // the position the session loaded
				}
				scrapeDirty[e.M] = true
			}
		case journal.KEmit:
			v := st[k]
			if v == nil || v.sid != e.ID {
				continue
			}
			if e.S == "end" {
				markEnd(e, k, e.I, false)
				res.probe("end-cause:" + fmt.Sprint(e.I))
				continue
			}
			if isDocKind(e.S) && !isInternalKey(e.Key) && e.Seq <= v.end {
				v.emittedLE[e.Seq] = true
			}
			if isDocKind(e.S) {
				if v.emittedBeforeEnd == nil {
					v.emittedBeforeEnd = map[uint64]bool{}
				}
				v.emittedBeforeEnd[e.Seq] = true
			}
		case journal.KConn:
			if e.S == "drop" && strings.Contains(e.ID, "d.n") {
				// every stream of that DCP connection ends with 'socket closed'
				for kk, v := range st {
					if kk.m == e.M && v.open && connOfSid(run, v.sid) == e.ID {
						markEnd(e, kk, -1, true)
						res.probe("end-cause:socket-closed")
					}
				}
			}
		case journal.KConsume:
			v := get(k)
			v.delivered[e.Seq] = true
			pending := v.emittedBeforeEnd[e.Seq]
			delete(v.emittedBeforeEnd, e.Seq)
			if v.final && pending {
				// emitted before the end in the same burst: the client processes its connection in order, the
				// delivery merely shows up in the journal after the node's end event
			} else if v.final {
				res.violate("C12", "R2-delivery-after-final-end", e.N, fmt.Sprintf("vb=%d", e.Vb), "member %d vb %d: seqno %d delivered after the vBucket's stream had ended for good", e.M, e.Vb, e.Seq)
			}
		case journal.KTrack:
			if e.Off != nil {
				if v := get(k); e.Off.Seq > v.pos {
					v.pos = e.Off.Seq
				}
			}
		case journal.KScrape:
			inScrape[e.M] = false
			as, ok := e.F["cbgo_active_stream_current"]
			if !ok || scrapeDirty[e.M] || !ready[e.M] || closing[e.M] || stoppedN[e.M] > 0 {
				continue
			}
			want := assigned[e.M] - finalCount(e.M)
			res.probe("active-streams-judged")
			if int(as) != want {
				res.violate("C12", "R3-active-stream-count", e.N, "plain",
					"member %d: cbgo_active_stream_current=%v; %d vBuckets are assigned and %d have ended for good", e.M, as, assigned[e.M], finalCount(e.M))
			}
		}
	}
	died := res.DeathKind == "runtime-panic" || res.DeathKind == "library-failstop"
	var mids []int
	for m := range ready {
		mids = append(mids, m)
	}
	sort.Ints(mids)
	lastT := int64(0)
	if len(run.Evs) > 0 {
		lastT = run.Evs[len(run.Evs)-1].T
	}
	for _, m := range mids {
		if closing[m] {
			continue
		}
		if died {
			res.violate("C12", "R5-process-died", len(run.Evs), "plain", "member %d: the process died while stream ends were being handled: %s", m, res.FailStop)
			continue
		}
		if !run.Ended {
			continue
		}
		all := assigned[m] > 0 && finalCount(m) == assigned[m]
		if all && stoppedN[m] == 0 && lastT-lastFinalT[m] > 20_000_000_000 {
			res.violate("C12", "R4-did-not-stop-after-last-final-end", len(run.Evs), "plain",
				"member %d: every assigned vBucket has ended for good (the last one %s ago) but Start() has not returned", m, fmtDur(lastT-lastFinalT[m]))
		}
		if stoppedN[m] > 0 && cfg.DcpMode == "finite" {
			// finite mode: every event up to the end sampled at open was delivered before the client stopped
			for kk, v := range st {
				if kk.m != m {
					continue
				}
				var missing []uint64
				for s := range v.emittedLE {
					if !v.delivered[s] {
						missing = append(missing, s)
					}
				}
				if len(missing) > 0 && v.finalN > 0 && endedOK(run, v.finalN) {
					sort.Slice(missing, func(i, j int) bool { return missing[i] < missing[j] })
					res.violate("C12", "R6-finite-event-not-delivered", len(run.Evs), fmt.Sprintf("vb=%d", kk.vb),
						"member %d vb %d (finite mode, end %d): seqno %d was emitted but never delivered before the client stopped", m, kk.vb, v.end, missing[0])
				}
			}
			res.probe("finite-completion")
		}
		// a transient end whose re-open never came (the member is still running, no failure injected)
		for kk, v := range st {
			if kk.m == m && v.awaiting && stoppedN[m] == 0 && lastT-v.awaitT > 15_000_000_000 && v.fails == 0 {
				res.violate("C12", "R1-never-reopened", v.awaitN, fmt.Sprintf("vb=%d", kk.vb),
					"member %d vb %d: the stream ended with a transient cause at event #%d and was not re-requested within %s", m, kk.vb, v.awaitN, fmtDur(lastT-v.awaitT))
			}
		}
	}
}

func endedOK(run *Run, n int) bool {
	if n <= 0 || n > len(run.Evs) {
		return false
	}
	e := &run.Evs[n-1]
	return e.K == journal.KEmit && e.S == "end" && e.I == 0
}

// connOfSid finds the connection a stream was opened on (from the request id of its STREAM_REQ reply).
func connOfSid(run *Run, sid string) string {
	for i := range run.Evs {
		e := &run.Evs[i]
		if e.K == journal.KSReq && e.ID == sid {
			// the rsp event that follows carries the request id "conn|CMD|..."
			for j := i + 1; j < len(run.Evs) && j < i+3; j++ {
				if run.Evs[j].K == journal.KRsp {
					return strings.SplitN(run.Evs[j].ID, "|", 2)[0]
				}
			}
		}
	}
	return ""
}
