package sim

import (
	"encoding/json"
	"fmt"
	"time"

	"github.com/couchbase/gocbcore/v10/memd"

	"verif/journal"
)

// scRM (C07): rollback mitigation on, several nodes and replicas; the scheduler controls each copy's
// (vbUUID, persisted seqno), the timing and outcome of every OBSERVE_SEQNO reply, cluster-map
// revision bumps and DCP emission, so events arrive before / while / after the reports that cover them.
type scRM struct {
	baseScn
	closeAt int
	bumps   int
	rebuilt int // replica copies rebuilt in place so far
	holeVb  int // a replica slot that is / was unassigned (-1: none)
	holeR   int
}

func init() { scenarios["C07"] = func() Scenario { return &scRM{} } }

func (w *World) journalVbMap() {
	b := w.cl.buckets[w.cfg.Bucket]
	raw, _ := json.Marshal(b.vbmap)
	w.jl(&journal.Ev{K: "vbmap", Vb: -1, Raw: raw, I: b.revKey()})
}

func (s *scRM) Configure(w *World) {
	c, t := w.cfg, w.tape
	c.RM = true
	c.NNodes = 2 + t.Draw(3, nil)
	c.NReplicas = t.Draw(4, nil)
	c.NVb = 2 + t.Draw(4, nil)
	c.MaxItems = 4 + t.Draw(8, nil)
	c.PreItems = 1 + t.Draw(4, nil)
	c.ItemKinds = []string{"mut", "del", "exp", "sys:collcreate"}
	c.ItemKindW = []int{10, 3, 2, 1}
	c.RMInterval = time.Duration(303+200*t.Draw(4, nil)) * time.Millisecond
	c.RMConfigWatch = 2003 * time.Millisecond
	c.CccpPoll = 2500 * time.Millisecond
	c.ConsumerMode = "immediate"
	c.CkptInterval = 1501 * time.Millisecond
	c.W.Persist, c.W.Scrape = 8, 1
	c.W.Emit = 6
	c.Faults = t.Draw(5, nil) >= 2
	if c.Faults {
		c.W.ReplyErr, c.W.Failover = 1, 1
	}
	if t.Draw(3, nil) == 0 {
		s.closeAt = 40 + t.Draw(c.MaxSteps-40, nil)
	}
	c.QuiesceBudget = 30 * time.Second
	c.AdvEventMax = 1 * time.Second
	c.Advances = []time.Duration{time.Millisecond, c.RMInterval / 5, c.RMInterval, 1013 * time.Millisecond}
	if t.Draw(3, nil) == 0 {
		// filtered collection: positions also advance through seqno-advanced messages
		c.ScopeName, c.CollectionNames, c.Collections = "s1", []string{"c1"}, []uint32{8, 8, 9}
		c.Extra["coll:8"], c.Extra["coll:9"] = "c1", "c2"
	}
	w.buildCluster()
	w.cl.collections["s1.c1"] = 8
	w.cl.collections["s1.c2"] = 9
	s.holeVb = -1
	if c.NReplicas > 0 && t.Draw(2, nil) == 0 {
		// the session starts with one replica slot unassigned (e.g. after a fail-over); a later map revision fills it
		s.holeVb, s.holeR = t.Draw(c.NVb, nil), 1+t.Draw(c.NReplicas, nil)
		w.cl.buckets[c.Bucket].vbmap[s.holeVb][s.holeR] = -1
	}
	// the preloaded history is not persisted anywhere yet
	w.journalVbMap()
	if t.Draw(4, nil) == 0 {
		// variant: a stored checkpoint whose stream request is answered with a rollback; the replayed history
		// lacks the checkpointed seqno itself (deduplicated), so the first event after it ends the catch-up
		b := w.cl.buckets[c.Bucket]
		vb := t.Draw(c.NVb, nil)
		v := b.vbs[vb]
		for len(v.items) < 4 {
			w.extWrites[vb]++
			w.cl.extWrite(b, vb, w.genItem(vb))
		}
		fi := 1 + t.Draw(len(v.items)-2, nil)
		f := v.items[fi].Seq
		r := v.items[t.Draw(fi, nil)].Seq - 1
		v.items = append(v.items[:fi:fi], v.items[fi+1:]...)
		w.seedCheckpoint(vb, journal.Off{UUID: v.failover[0].UUID, Seq: f, Start: f, End: f})
		done := false
		w.scriptSReq = func(cn *Conn, qvb int, start uint64) (replyVariant, bool) {
			if qvb != vb || done {
				return replyVariant{}, false
			}
			done = true
			w.probe("rollback-on-open-with-mitigation")
			return replyVariant{name: "rollback", status: memd.StatusRollback, rbSeq: r}, true
		}
	}
}

func (s *scRM) ErrVariants(w *World, q *Req) []replyVariant {
	if q.pkt.Command == memd.CmdObserveSeqNo && w.ready1() {
		vs := []replyVariant{{name: "tmpfail", status: memd.StatusTmpFail}, {name: "busy", status: memd.StatusBusy}}
		if w.faultsFired["err:obs-silent"] < 2 {
			vs = append(vs, replyVariant{name: "obs-silent", silent: true}) // the observe runs into its 5 s deadline
		}
		return vs
	}
	return nil
}

func (s *scRM) MayDrop(w *World, c *Conn) bool  { return false }
func (s *scRM) MayStall(w *World, c *Conn) bool { return false }

// persistActions: the scheduler advances each listed copy's persisted seqno (and, with fail-over faults, lets
// a copy sit on another history branch for a while).
func (w *World) persistActions() []Action {
	c := w.cfg
	var acts []Action
	b := w.cl.buckets[c.Bucket]
	for vb := 0; vb < c.NVb; vb++ {
		for r := 0; r <= c.NReplicas; r++ {
			vb, r := vb, r
			if b.vbmap[vb][r] < 0 {
				continue
			}
			v := b.vbs[vb]
			if v.copies[r].Persisted < v.high {
				pw := c.W.Persist
				if w.slowCopy[[2]int{vb, r}] && pw > 1 {
					pw = 1 // a replica that was assigned a moment ago builds up slowly
				}
				acts = append(acts, Action{ID: fmt.Sprintf("persist|vb%d|r%d", vb, r), W: pw, Do: func() {
					w.mu.Lock()
					gap := int(v.high - v.copies[r].Persisted)
					step := 1 + w.tape.Draw(gap, nil)
					if w.tape.Draw(3, nil) == 0 {
						step = gap
					}
					v.copies[r].Persisted += uint64(step)
					cp := v.copies[r]
					w.mu.Unlock()
					w.jl(&journal.Ev{K: journal.KPersist, Vb: vb, I: int64(r), U: cp.UUID, U2: cp.Persisted})
				}})
			}
			if c.W.Failover > 0 {
				acts = append(acts, Action{ID: fmt.Sprintf("uuid|vb%d|r%d", vb, r), W: c.W.Failover, Do: func() {
					w.mu.Lock()
					if v.copies[r].UUID == v.failover[0].UUID {
						v.copies[r].UUID = v.failover[0].UUID + 7777 // this copy is on another history branch for a while
						defer w.fault("uuidsplit", fmt.Sprintf("vb%d.r%d", vb, r))
					} else {
						v.copies[r].UUID = v.failover[0].UUID
					}
					cp := v.copies[r]
					w.mu.Unlock()
					w.jl(&journal.Ev{K: journal.KPersist, Vb: vb, I: int64(r), U: cp.UUID, U2: cp.Persisted, S: "uuid"})
				}})
			}
		}
	}
	return acts
}

// persistAll: everything gets persisted on every listed copy under the current branch, so that what waits at
// the gate can flow (quiesce phase).
func (w *World) persistAll() {
	c := w.cfg
	b := w.cl.buckets[c.Bucket]
	w.mu.Lock()
	for vb := 0; vb < c.NVb; vb++ {
		v := b.vbs[vb]
		for r := range v.copies {
			if b.vbmap[vb][r] < 0 {
				continue
			}
			if v.copies[r].UUID == v.failover[0].UUID && v.copies[r].Persisted == v.high {
				continue
			}
			v.copies[r].UUID = v.failover[0].UUID
			v.copies[r].Persisted = v.high
			w.jl(&journal.Ev{K: journal.KPersist, Vb: vb, I: int64(r), U: v.copies[r].UUID, U2: v.copies[r].Persisted, S: "quiesce"})
		}
	}
	w.mu.Unlock()
}

func (s *scRM) Actions(w *World) []Action {
	c := w.cfg
	acts := w.persistActions()
	b := w.cl.buckets[c.Bucket]
	if s.rebuilt < 2 && w.ready1() {
		// a replica copy that is rebuilt in place (dropped and streamed again from the active): it keeps the
		// vbUUID - the failover table is taken over from the active - but its persisted seqno starts over
		for vb := 0; vb < c.NVb; vb++ {
			for r := 1; r <= c.NReplicas; r++ {
				vb, r := vb, r
				v := b.vbs[vb]
				if b.vbmap[vb][r] < 0 || v.copies[r].Persisted == 0 || v.copies[r].UUID != v.failover[0].UUID {
					continue
				}
				acts = append(acts, Action{ID: fmt.Sprintf("rebuild|vb%d|r%d", vb, r), W: 1, Do: func() {
					s.rebuilt++
					w.mu.Lock()
					v.copies[r].Persisted = uint64(w.tape.Draw(int(v.copies[r].Persisted), nil))
					cp := v.copies[r]
					if w.slowCopy == nil {
						w.slowCopy = map[[2]int]bool{}
					}
					w.slowCopy[[2]int{vb, r}] = true
					w.mu.Unlock()
					w.fault("replica-rebuilt", fmt.Sprintf("vb%d.r%d", vb, r))
					w.jl(&journal.Ev{K: journal.KPersist, Vb: vb, I: int64(r), U: cp.UUID, U2: cp.Persisted, S: "rebuild"})
				}})
			}
		}
	}
	if (c.W.Failover > 0 || s.holeVb >= 0) && s.bumps < 2 && w.ready1() {
		acts = append(acts, Action{ID: "mapbump", W: 2, Do: func() {
			s.bumps++
			w.mu.Lock()
			if w.tape.Draw(2, nil) == 0 {
				// the cluster was re-created / failed over hard: a newer revision epoch whose revision counter starts low again
				b.revEpoch++
				b.rev = 1
				w.faultsFired["epochbump"]++
			} else {
				b.rev++
			}
			// a replica of one vBucket becomes unassigned / assigned again
			vb := w.tape.Draw(c.NVb, nil)
			if c.NReplicas > 0 {
				r := 1 + w.tape.Draw(c.NReplicas, nil)
				if s.holeVb >= 0 && w.tape.Draw(2, nil) == 0 {
					vb, r = s.holeVb, s.holeR // the slot that has been toggled before
				}
				s.holeVb, s.holeR = vb, r
				if b.vbmap[vb][r] >= 0 {
					b.vbmap[vb][r] = -1
				} else if r < c.NNodes {
					b.vbmap[vb][r] = (vb + r) % c.NNodes
					if w.slowCopy == nil {
						w.slowCopy = map[[2]int]bool{}
					}
					w.slowCopy[[2]int{vb, r}] = true
				}
			}
			w.mu.Unlock()
			w.fault("mapbump", "")
			w.journalVbMap()
		}})
	}
	return acts
}

func (s *scRM) MemberActions(w *World, m *Member) []Action {
	if !m.ready || m.stopped || m.closing {
		return nil
	}
	id := fmt.Sprintf("m%d", m.id)
	var acts []Action
	if !m.scraping {
		acts = append(acts, Action{ID: "scrape|" + id, W: w.cfg.W.Scrape, Do: func() { m.scrape() }})
	}
	cw := 0
	if s.closeAt > 0 && w.step >= s.closeAt {
		cw = 5
	}
	acts = append(acts, Action{ID: "close|" + id, W: cw, Do: func() { w.closeMember(m) }})
	return acts
}

func (s *scRM) OnQuiesce(w *World) { w.persistAll() }
