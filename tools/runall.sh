#!/bin/bash
# usage: runall.sh <tier> [props...] — runs the registered checks one after another; prints one line per property.
cd /verif
TIER=${1:-quick}; shift || true
PROPS=${*:-$(python3 -c "import json;print(' '.join(c['property_id'] for c in json.load(open('MANIFEST.json'))['checks']))")}
./build.sh || exit 2
for P in $PROPS; do
  OUT=$(./bin/verif check -prop $P -tier $TIER -nobuild 2>&1); RC=$?
  echo "$P rc=$RC $(echo "$OUT" | grep "^verif: $P" | tail -1)"
  echo "$OUT" | grep "^VIOLATION\|^KNOWN-FINDING\|nonreproducible\|missing probe" | sed 's/ detail=.*//' | sort | uniq -c | sed 's/^/    /'
done
