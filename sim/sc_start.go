package sim

import (
	"encoding/json"
	"fmt"
	"sort"
	"time"

	"github.com/couchbase/gocbcore/v10/memd"

	"github.com/Trendyol/go-dcp/models"
	"github.com/Trendyol/go-dcp/wrapper"

	"verif/journal"
)

// scStart: everything that happens when a session opens against an existing history — resume from
// pre-seeded checkpoints (C02), server-requested rollback (C08), start-up faults (C15).
type scStart struct {
	baseScn
	prop                string
	restarts            int
	rb                  map[int]*rbScript   // C08: per vb scripted rollback
	twinCand            map[int]journal.Off // C02 read-only: newer checkpoints a read-write twin may store
	twinSaved, reopened bool
	rb2Enabled          bool   // C08: a rollback on a re-open (stream end after a fail-over that lost the tail)
	rb2State            string // "", armed, done
	rb2Vb               int
	fault               string // C15: the injected start-up fault
	faultVb             int
	faultN              int
	custom              *customMeta
}

type rbScript struct {
	f, r     uint64
	flog     []FEntry
	done     bool
	second   string // "", "fail", "rollback"
	flogFail bool
}

var boundaries = []uint64{0, 1, 2, 1<<31 - 1, 1 << 31, 1<<31 + 1, 1<<53 - 1, 1 << 53, 1<<53 + 1, 1<<63 - 1, 1 << 63, 1<<63 + 1, 1<<64 - 2, 1<<64 - 1}

func init() {
	for _, p := range []string{"C02", "C08", "C15"} {
		p := p
		scenarios[p] = func() Scenario { return &scStart{prop: p, rb: map[int]*rbScript{}} }
	}
}

func ckptJSON(o journal.Off, bucketUUID string) []byte {
	doc := models.CheckpointDocument{
		Checkpoint: &models.CheckpointDocumentCheckpoint{VbUUID: o.UUID, SeqNo: o.Seq, Snapshot: &models.CheckpointDocumentSnapshot{StartSeqNo: o.Start, EndSeqNo: o.End}},
		BucketUUID: bucketUUID,
	}
	b, _ := json.Marshal(doc)
	return b
}

// seedCheckpoint puts a checkpoint document straight into the store (it existed before the run).
func (w *World) seedCheckpoint(vb int, o journal.Off) {
	c := w.cfg
	key := fmt.Sprintf("_connector:cbgo:%s:checkpoint:%d", c.Group, vb)
	payload := ckptJSON(o, "uuid-"+c.Bucket)
	switch {
	case c.Extra["backend"] == "custom":
		w.scn.(*scStart).custom.docs[uint16(vb)] = &models.CheckpointDocument{}
		_ = json.Unmarshal(payload, w.scn.(*scStart).custom.docs[uint16(vb)])
	case c.Metadata == "file":
		name := fmt.Sprintf("/simdisk/%s.json", c.Group)
		m := map[string]json.RawMessage{}
		if b, ok := w.disk.files[name]; ok {
			_ = json.Unmarshal(b, &m)
		}
		m[fmt.Sprint(vb)] = payload
		w.disk.files[name], _ = json.Marshal(m)
	default:
		b := w.cl.buckets[c.MetaBucket]
		b.docs[key] = &Doc{body: []byte("{}"), xattrs: map[string][]byte{"cbgo": payload}, cas: w.cl.nextCas(), rev: 1}
	}
	oo := o
	w.jl(&journal.Ev{K: journal.KKVW, M: 0, Vb: vb, Key: []byte(key), S: "seed", S2: c.MetaBucket, Off: &oo, Raw: payload})
}

func (s *scStart) Configure(w *World) {
	c, t := w.cfg, w.tape
	c.NVb = 2 + t.Draw(5, nil)
	c.NNodes = 1 + t.Draw(2, nil)
	c.PreItems = 0
	c.MaxItems = 4 + t.Draw(8, nil)
	c.AutoReset = Pick(t, []string{"earliest", "latest"}, nil)
	c.DcpMode = Pick(t, []string{"infinite", "finite"}, []int{3, 1})
	c.ConsumerMode = Pick(t, []string{"immediate", "deferred"}, nil)
	c.CkptInterval = time.Duration(301+100*t.Draw(6, nil)) * time.Millisecond
	backend := Pick(t, []string{"couchbase", "couchbase-other", "file", "custom"}, []int{4, 2, 2, 2})
	if s.prop == "C15" {
		s.fault = Pick(t, []string{"none", "ckpt-above-high", "load-error", "load-silent", "seqnos-error", "flog-error", "sreq-error", "sreq-silent", "bad-membership", "bad-metadata", "file-read-error"}, []int{2, 3, 2, 1, 2, 2, 3, 1, 1, 1, 2})
		if s.fault == "load-error" || s.fault == "load-silent" {
			backend = Pick(t, []string{"couchbase", "couchbase-other"}, nil) // only the Couchbase backend reads over the wire
		}
		if s.fault == "file-read-error" {
			backend = "file" // the checkpoint file exists but cannot be read (EIO / EACCES / EMFILE) when the session loads it
		}
	}
	switch backend {
	case "couchbase-other":
		c.MetaBucket = "meta"
	case "file":
		c.Metadata = "file"
	case "custom":
		c.Extra["backend"] = "custom"
		s.custom = &customMeta{w: w, docs: map[uint16]*models.CheckpointDocument{}}
	}
	c.ReadOnly = t.Draw(4, nil) == 0
	c.RebalanceDelay = 3001 * time.Millisecond
	c.W.Close = 1
	c.W.Commit = 1
	if s.prop == "C15" {
		c.ReadOnly = false
		c.DcpMode = "infinite"
	}
	if s.prop == "C02" && t.Draw(5, nil) == 0 {
		// named collections configured: what is resumed and where a finite session ends is still about the vBucket
		c.ScopeName, c.CollectionNames = "s1", []string{"c1"}
		c.Extra["c02collections"] = "1"
	}
	if s.prop == "C08" {
		if t.Draw(3, nil) == 0 {
			c.ScopeName, c.CollectionNames = "s1", []string{"c1"} // a filtered stream: snapshot tails are closed by seqno-advanced
			c.Extra["c08filter"] = "1"
		}
		c.DcpMode = Pick(t, []string{"infinite", "finite"}, []int{4, 1})
		s.rb2Enabled = t.Draw(3, nil) == 0 && c.DcpMode == "infinite"
		c.ReadOnly = false
		if backend == "custom" {
			c.Extra["backend"], s.custom = "", nil
		}
	}
	w.buildCluster()
	w.cl.collections["s1.c1"] = 8
	w.cl.collections["s1.c2"] = 9
	c.Extra["coll:8"], c.Extra["coll:9"] = "c1", "c2"
	if c.Metadata == "file" {
		w.disk = newDisk(w)
	}
	b := w.cl.buckets[c.Bucket]
	fileAll := t.Draw(2, nil) == 1
	if s.prop == "C02" && c.Metadata == "file" && t.Draw(4, nil) == 0 {
		s.fault = "file-read-error" // C02 too: a checkpoint file that exists but cannot be read must not be taken for "no checkpoint"
	}
	if s.prop == "C02" && c.Metadata == "couchbase" && c.Extra["backend"] != "custom" && t.Draw(6, nil) == 0 {
		s.fault = "load-error" // likewise an error status replied to a checkpoint read (scripted in BeforeStep)
	}
	if s.fault == "file-read-error" {
		fileAll = true
		w.disk.failRead = Pick(t, []string{"eio", "eacces", "emfile"}, nil)
		w.jl(&journal.Ev{K: journal.KExpect, Vb: -1, S: ""})
	}
	// per-vBucket history: branch uuid, high seqno, optionally a stored checkpoint
	for vb := 0; vb < c.NVb; vb++ {
		v := b.vbs[vb]
		uuid := Pick(t, boundaries, nil)
		if uuid == 0 {
			uuid = 7
		}
		v.failover = []FEntry{{UUID: uuid, Seq: 0}}
		if s.prop == "C02" && t.Draw(2, nil) == 1 {
			// a history with earlier branches (newest first); the stored checkpoint, if any, is on the newest
			for n := 1 + t.Draw(2, nil); n > 0; n-- {
				v.failover = append(v.failover, FEntry{UUID: uuid ^ uint64(0x5a5a+n), Seq: 0})
			}
		}
		for i := range v.copies {
			v.copies[i].UUID = uuid
		}
		has := t.Draw(3, nil) != 0
		if c.Metadata == "file" {
			has = fileAll // the file backend stores one document for all vBuckets: all or nothing
		}
		switch s.prop {
		case "C02":
			if !has {
				v.high = Pick(t, boundaries, nil)
				continue
			}
			seq := Pick(t, boundaries, nil)
			high := seq
			if seq < 1<<64-1 && t.Draw(2, nil) == 1 {
				high = seq + 1 + uint64(t.Draw(5, nil))
				if high < seq {
					high = seq
				}
			}
			ss, se := seq, seq
			if t.Draw(2, nil) == 1 && seq > 0 {
				ss = seq - uint64(t.Draw(3, nil))%seq
			}
			if t.Draw(2, nil) == 1 && high > seq {
				se = high
			}
			v.high = high
			w.seedCheckpoint(vb, journal.Off{UUID: uuid, Seq: seq, Start: ss, End: se})
			if high > seq {
				if s.twinCand == nil {
					s.twinCand = map[int]journal.Off{}
				}
				s.twinCand[vb] = journal.Off{UUID: uuid, Seq: high, Start: high, End: high}
			}
		case "C08":
			high := uint64(10 + t.Draw(30, nil))
			v.high = high
			for q := uint64(1); q <= high; q++ {
				kind := Pick(t, []string{"mut", "del", "sys:collcreate"}, []int{8, 2, 1})
				it := Item{Seq: q, Kind: kind, Key: []byte(fmt.Sprintf("k-%d-%d", vb, q)), Cas: w.cl.nextCas(), Rev: 1, Val: []byte(`{"x":1}`), Datatype: uint8(memd.DatatypeFlagJSON)}
				if kind != "mut" {
					it.Val, it.Datatype = nil, 0
				}
				if kind == "sys:collcreate" {
					it.Coll, it.ScopeID, it.Manifest, it.Key = 9, 8, q, []byte("c9")
				} else if c.Extra["c08filter"] == "1" {
					it.Coll = uint32(8 + t.Draw(2, nil))
				}
				v.items = append(v.items, it)
			}
			if !has {
				continue
			}
			f := uint64(1 + t.Draw(int(high), nil))
			ss, se := f, f
			if t.Draw(2, nil) == 1 {
				ss = f - uint64(t.Draw(int(f), nil))
				se = f + uint64(t.Draw(int(high-f)+1, nil))
			}
			r := uint64(t.Draw(int(f)+1, nil))
			switch t.Draw(5, nil) {
			case 0:
				r = f
			case 1:
				r = 0
			}
			// failover log of 1..6 entries, newest first, non-increasing start seqnos (equal starts allowed)
			n := 1 + t.Draw(6, nil)
			flog := make([]FEntry, n)
			cur := high
			for i := 0; i < n; i++ {
				if i == n-1 {
					cur = 0
				} else if t.Draw(3, nil) != 0 {
					cur -= uint64(t.Draw(int(cur)+1, nil))
				}
				flog[i] = FEntry{UUID: uint64(5000 + 10*vb + i), Seq: cur}
			}
			sc := &rbScript{f: f, r: r, flog: flog}
			switch t.Draw(30, nil) {
			case 0:
				sc.second = "fail"
			case 1:
				sc.second = "rollback"
			case 2:
				sc.flogFail = true
			}
			s.rb[vb] = sc
			w.seedCheckpoint(vb, journal.Off{UUID: uuid, Seq: f, Start: ss, End: se})
		case "C15":
			v.high = uint64(5 + t.Draw(10, nil))
			if has && s.fault != "flog-error" {
				seq := uint64(t.Draw(int(v.high)+1, nil))
				ss, se := seq, seq
				if t.Draw(2, nil) == 1 && seq > 0 {
					// a checkpoint taken in the middle of a multi-item snapshot
					ss = seq - uint64(t.Draw(int(seq), nil))
					se = seq + uint64(t.Draw(int(v.high-seq)+1, nil))
				}
				w.seedCheckpoint(vb, journal.Off{UUID: uuid, Seq: seq, Start: ss, End: se})
			}
		}
	}
	if s.prop == "C08" {
		w.scriptFlog = func(vb int) []FEntry {
			if sc := s.rb[vb]; sc != nil {
				return sc.flog
			}
			return nil
		}
		w.scriptSReq = func(cn *Conn, vb int, start uint64) (replyVariant, bool) {
			if s.rb2State == "armed" && vb == s.rb2Vb {
				// the re-open after a fail-over that lost the tail: the position the client asks for lies beyond the
				// point where the new branch begins
				s.rb2State = "done"
				if start == 0 {
					return replyVariant{}, false
				}
				r2 := start - uint64(w.tape.Draw(int(min(start, 3))+1, nil))
				v := cn.bucket.vbs[vb]
				nu := v.failover[0].UUID + 424242
				var keep []Item
				for _, it := range v.items {
					if it.Seq <= r2 {
						keep = append(keep, it)
					}
				}
				v.items, v.high = keep, r2
				v.failover = append([]FEntry{{UUID: nu, Seq: r2}}, v.failover...)
				for i := range v.copies {
					v.copies[i].UUID, v.copies[i].Persisted = nu, r2
				}
				w.jl(&journal.Ev{K: journal.KNote, Vb: vb, S: "failover", U: nu, Seq: r2})
				for n := 2 + w.tape.Draw(4, nil); n > 0; n-- {
					w.extWrites[vb]++
					it := w.genItem(vb)
					it.Key = append([]byte("nb-"), it.Key...) // the new branch's documents
					w.cl.extWrite(cn.bucket, vb, it)
				}
				w.probe("rollback-on-reopen")
				return replyVariant{name: "rollback", status: memd.StatusRollback, rbSeq: r2}, true
			}
			sc := s.rb[vb]
			if sc == nil {
				return replyVariant{}, false
			}
			if !sc.done {
				sc.done = true
				w.probe(fmt.Sprintf("rollback:%s", rbClass(sc)))
				return replyVariant{name: "rollback", status: memd.StatusRollback, rbSeq: sc.r}, true
			}
			switch sc.second {
			case "fail":
				sc.second = ""
				w.jl(&journal.Ev{K: journal.KExpect, Vb: -1, S: ""})
				return replyVariant{name: "internal", status: memd.StatusInternalError}, true
			case "rollback":
				sc.second = ""
				return replyVariant{name: "rollback", status: memd.StatusRollback, rbSeq: sc.r / 2}, true
			}
			return replyVariant{name: "ok"}, true
		}
	}
	if s.prop == "C15" {
		s.faultVb = t.Draw(c.NVb, nil)
		switch s.fault {
		case "ckpt-above-high":
			v := b.vbs[s.faultVb]
			seq := v.high + 100 + uint64(t.Draw(3, nil)) // beyond anything the workload can add
			start := seq
			if t.Draw(2, nil) == 1 {
				start = uint64(t.Draw(int(v.high)+1, nil)) // checkpoint taken mid-snapshot: the snapshot began at or below the high seqno
				w.probe("ckpt-above-high:mid-snapshot")
			}
			if t.Draw(3, nil) == 0 {
				// and the seqno reply does not list the vBucket at all
				c.SeqnoOmitVb = s.faultVb + 1
				w.probe("ckpt-above-high:vb-missing-in-seqno-reply")
			}
			w.seedCheckpoint(s.faultVb, journal.Off{UUID: v.failover[0].UUID, Seq: seq, Start: start, End: seq + 5})
			w.jl(&journal.Ev{K: journal.KExpect, Vb: s.faultVb, S: "checkpoint seqNo bigger then vBucket latest seqNo"})
		case "flog-error":
			c.AutoReset = "latest"
			if c.Extra["backend"] == "custom" {
				s.custom.docs = map[uint16]*models.CheckpointDocument{}
			}
		case "bad-membership":
			c.Membership = "no-such-membership"
			w.jl(&journal.Ev{K: journal.KExpect, Vb: -1, S: "unknown membership"})
		case "bad-metadata":
			c.Metadata = "no-such-metadata"
			c.Extra["backend"], s.custom = "", nil
			w.jl(&journal.Ev{K: journal.KExpect, Vb: -1, S: "invalid metadata type"})
		}
		if s.fault == "load-silent" || s.fault == "sreq-silent" {
			c.DelayFaults, c.BootFaults = true, true
			c.AdvEventMax = 70 * time.Second
		}
		w.jl(&journal.Ev{K: journal.KNote, Vb: s.faultVb, S: "startup-fault:" + s.fault})
	}
}

func rbClass(sc *rbScript) string {
	switch {
	case sc.r == sc.f:
		return "R=F"
	case sc.r == 0:
		return "R=0"
	}
	return "R<F"
}

func (s *scStart) TuneMember(w *World, m *Member) {
	if s.fault == "flog-error" && w.cfg.Metadata == "file" && w.disk != nil {
		delete(w.disk.files, fmt.Sprintf("/simdisk/%s.json", w.cfg.Group))
	}
}

func (s *scStart) BeforeStart(w *World, m *Member) {
	if s.custom != nil {
		m.d.SetMetadata(s.custom)
	}
}

// ErrVariants: C15's start-up faults are injected as reply errors on the first matching request.
func (s *scStart) ErrVariants(w *World, q *Req) []replyVariant { return nil }

func (s *scStart) ReplyWeight(w *World, q *Req) (int, bool) { return 0, false }

// BeforeStep injects the C15 fault deterministically: the first matching pending request is answered with an error / left silent.
func (s *scStart) BeforeStep(w *World) {
	if s.prop == "C08" {
		// variant: the failover-log query of the rollback path fails
		w.mu.Lock()
		var hit *Req
		for _, c := range w.sortedConns() {
			for _, q := range headBatch(c) {
				if sc := s.rb[int(q.pkt.Vbucket)]; q.pkt.Command == memd.CmdDcpGetFailoverLog && sc != nil && sc.flogFail && sc.done {
					sc.flogFail = false
					hit = q
				}
			}
		}
		w.mu.Unlock()
		if hit != nil {
			w.jl(&journal.Ev{K: journal.KExpect, Vb: int(hit.pkt.Vbucket), S: ""})
			w.probe("failover-log-query-failed")
			w.release(hit, replyVariant{name: "internal", status: memd.StatusInternalError})
		}
		return
	}
	if !(s.prop == "C15" || s.prop == "C02" && s.fault == "load-error") || s.faultN > 0 {
		return
	}
	want := map[string]memd.CmdCode{"load-error": memd.CmdSubDocMultiLookup, "load-silent": memd.CmdSubDocMultiLookup, "seqnos-error": memd.CmdGetAllVBSeqnos,
		"flog-error": memd.CmdDcpGetFailoverLog, "sreq-error": memd.CmdDcpStreamReq, "sreq-silent": memd.CmdDcpStreamReq}
	cmd, ok := want[s.fault]
	if !ok {
		return
	}
	w.mu.Lock()
	var hit *Req
	for _, c := range w.sortedConns() {
		for _, q := range headBatch(c) {
			if q.pkt.Command != cmd {
				continue
			}
			if cmd == memd.CmdDcpStreamReq && int(q.pkt.Vbucket) != s.faultVb {
				continue
			}
			if cmd == memd.CmdSubDocMultiLookup && !isCheckpointKey(q.pkt.Key) {
				continue
			}
			hit = q
			break
		}
		if hit != nil {
			break
		}
	}
	w.mu.Unlock()
	if hit == nil {
		return
	}
	s.faultN++
	expect := map[string]string{"load-error": "", "load-silent": "timeout", "seqnos-error": "", "flog-error": "", "sreq-error": "", "sreq-silent": "timeout"}
	w.jl(&journal.Ev{K: journal.KExpect, Vb: int(hit.pkt.Vbucket), S: expect[s.fault], ID: hit.id})
	if s.fault == "load-silent" || s.fault == "sreq-silent" {
		w.mu.Lock()
		hit.conn.stalled = true
		w.mu.Unlock()
		w.fault("silent:"+s.fault, hit.id)
		return
	}
	w.release(hit, replyVariant{name: "internal", status: memd.StatusInternalError})
}

func (s *scStart) MayStall(w *World, c *Conn) bool { return false }
func (s *scStart) MayDrop(w *World, c *Conn) bool  { return false }

func (s *scStart) MemberActions(w *World, m *Member) []Action {
	c := w.cfg
	if !m.ready || m.stopped || m.closing {
		return nil
	}
	id := fmt.Sprintf("m%d", m.id)
	cw := c.W.Close
	w.mu.Lock()
	if s.reopened && m.phase != "open" {
		cw = 0 // Close() inside a rebalance window is C13's subject (and a recorded finding there)
	}
	w.mu.Unlock()
	acts := []Action{
		{ID: "commit|" + id, W: c.W.Commit, Do: func() { m.call("Commit", func() string { m.d.Commit(); return "" }) }},
		{ID: "close|" + id, W: cw, Do: func() { w.closeMember(m) }},
	}
	if s.prop == "C02" && c.ReadOnly && len(s.twinCand) > 0 {
		// read-only mode exists for a twin that follows a read-write instance: that one saves newer checkpoints, and
		// a later re-open of this member's streams (GET /rebalance) has to load them again
		w.mu.Lock()
		open := m.phase == "open"
		w.mu.Unlock()
		if !s.twinSaved {
			acts = append(acts, Action{ID: "twinsave", W: 3, Do: func() {
				s.twinSaved = true
				var vbs []int
				for vb := range s.twinCand {
					vbs = append(vbs, vb)
				}
				sort.Ints(vbs)
				for _, vb := range vbs {
					if w.tape.Draw(2, nil) == 0 || vb == vbs[0] {
						w.seedCheckpoint(vb, s.twinCand[vb])
					}
				}
				w.probe("read-write-twin-saved")
			}})
		} else if !s.reopened && open {
			acts = append(acts, Action{ID: "reopen|" + id, W: 3, Do: func() {
				s.reopened = true
				w.probe("read-only-session-reopened")
				m.apiCall("GET", "/rebalance", "")
			}})
		}
	}
	return acts
}

func (s *scStart) Actions(w *World) []Action {
	if s.prop == "C08" && s.rb2Enabled && s.rb2State == "" && w.ready1() {
		var acts []Action
		w.mu.Lock()
		for _, st := range w.sortedStreams() {
			st := st
			m := w.members[st.conn.member-1]
			if !st.open || s.rb[st.vb] != nil || m.closing || m.stopped || m.crashed || !m.ready {
				continue
			}
			acts = append(acts, Action{ID: "failover-end|" + st.sid, W: 2, Do: func() {
				s.rb2Vb, s.rb2State = st.vb, "armed"
				w.fault("end:state-changed-after-a-lossy-failover", st.sid)
				w.mu.Lock()
				st.endStat = 2
				w.cl.emitEnd(st)
				w.mu.Unlock()
			}})
		}
		w.mu.Unlock()
		return acts
	}
	live := 0
	for _, m := range w.members {
		if !m.crashed && !m.stopped {
			live++
		}
	}
	if live == 0 && s.restarts < 1 && s.prop == "C02" {
		return []Action{{ID: "restart", W: 30, Do: func() { s.restarts++; w.addMember().start() }}}
	}
	return nil
}

// customMeta is a user-supplied metadata backend (map-backed); every call is journalled.
type customMeta struct {
	w    *World
	docs map[uint16]*models.CheckpointDocument
}

func (c *customMeta) Save(state map[uint16]*models.CheckpointDocument, dirty map[uint16]bool, _ string) error {
	var vbs []int
	for vb := range state {
		if dirty[vb] {
			vbs = append(vbs, int(vb))
		}
	}
	sort.Ints(vbs)
	c.w.mu.Lock()
	for _, vb := range vbs {
		d := *state[uint16(vb)]
		c.docs[uint16(vb)] = &d
	}
	c.w.mu.Unlock()
	for _, vb := range vbs {
		d := state[uint16(vb)]
		o := &journal.Off{UUID: d.Checkpoint.VbUUID, Seq: d.Checkpoint.SeqNo, Start: d.Checkpoint.Snapshot.StartSeqNo, End: d.Checkpoint.Snapshot.EndSeqNo}
		c.w.jl(&journal.Ev{K: journal.KKVW, M: -1, Vb: vb, Key: []byte(fmt.Sprintf("_connector:cbgo:%s:checkpoint:%d", c.w.cfg.Group, vb)), S: "custom-save", Off: o})
	}
	c.w.jl(&journal.Ev{K: "metacall", Vb: -1, S: "Save", I: int64(len(vbs))})
	return nil
}

func (c *customMeta) Load(vbIds []uint16, bucketUUID string) (*wrapper.ConcurrentSwissMap[uint16, *models.CheckpointDocument], bool, error) {
	st := wrapper.CreateConcurrentSwissMap[uint16, *models.CheckpointDocument](1024)
	exist := false
	c.w.mu.Lock()
	for _, vb := range vbIds {
		if d, ok := c.docs[vb]; ok {
			cp := *d
			st.Store(vb, &cp)
			exist = true
		} else {
			st.Store(vb, models.NewEmptyCheckpointDocument(bucketUUID))
		}
	}
	c.w.mu.Unlock()
	c.w.jl(&journal.Ev{K: "metacall", Vb: -1, S: "Load", I: int64(len(vbIds)), B: exist})
	return st, exist, nil
}

func (c *customMeta) Clear(vbIds []uint16) error {
	c.w.jl(&journal.Ev{K: "metacall", Vb: -1, S: "Clear"})
	return nil
}
