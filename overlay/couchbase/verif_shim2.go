//go:build verif

package couchbase

import (
	"github.com/Trendyol/go-dcp/wrapper"
	"github.com/couchbase/gocbcore/v10"
)

// reset0 fills persistedSeqNos[0] from rows of (absent, vbUUID, seqNo).
func (r *rollbackMitigation) reset0(table [][3]uint64) {
	r.persistedSeqNos = wrapper.CreateConcurrentSwissMap[uint16, []*vbUUIDAndSeqNo](8)
	arr := make([]*vbUUIDAndSeqNo, len(table))
	for i, row := range table {
		arr[i] = &vbUUIDAndSeqNo{absent: row[0] != 0, vbUUID: gocbcore.VbUUID(row[1]), seqNo: gocbcore.SeqNo(row[2])}
	}
	r.persistedSeqNos.Store(0, arr)
}
