package sim

import (
	"fmt"
	"sort"
	"strings"
	"sync"
	"time"

	"github.com/couchbase/gocbcore/v10/memd"

	"verif/journal"
)

// scLife is the single-group "stream life" scenario family behind C01, C04, C05, C06, C13 and C16:
// deliveries, acknowledgements in any order, saves from all sources, save faults, close, crash and
// restart. Each property only changes weights and enabled fault kinds.
type scLife struct {
	baseScn
	prop          string
	restarts      int
	maxRest       int
	closeAt       int
	badDone       bool
	groups        []string // C14: one group name per member
	endsInClose   int
	transientEnds int
	errsSeen      int
}

func init() {
	for _, p := range []string{"C01", "C04", "C05", "C06", "C13", "C14", "C16"} {
		p := p
		scenarios[p] = func() Scenario { return &scLife{prop: p} }
	}
}

func (s *scLife) Configure(w *World) {
	c, t := w.cfg, w.tape
	c.NVb = 2 + t.Draw(5, nil)
	c.NNodes = 1 + t.Draw(2, nil)
	c.MaxItems = 5 + t.Draw(14, nil)
	c.PreItems = t.Draw(4, nil)
	c.ItemKinds = []string{"mut", "del", "exp", "sys:collcreate", "sys:scopecreate", "sys:collchanged"}
	c.ItemKindW = []int{10, 3, 2, 1, 1, 1}
	c.KeyClasses = []string{"plain", "conn", "txn", "partial", "embedded"}
	c.KeyClassW = []int{8, 2, 1, 1, 1}
	if t.Draw(3, nil) == 0 {
		// filtered collection: the tail of a snapshot may be closed by seqno-advanced
		c.ScopeName, c.CollectionNames, c.Collections = "s1", []string{"c1"}, []uint32{8, 8, 9}
	}
	c.ConsumerMode = Pick(t, []string{"deferred", "immediate", "immediate-commit", "deferred-commit"}, []int{7, 2, 1, 1})
	c.CkptType = Pick(t, []string{"auto", "manual"}, []int{4, 1})
	c.CkptInterval = time.Duration(301+100*t.Draw(10, nil)) * time.Millisecond
	c.CkptTimeout = Pick(t, []time.Duration{3001 * time.Millisecond, 1501 * time.Millisecond}, nil)
	switch t.Draw(20, nil) {
	case 0, 1, 2, 3, 4:
		c.MetaBucket = "meta"
	case 5, 6, 7:
		c.Metadata = "file"
	}
	c.AutoReset = Pick(t, []string{"earliest", "latest"}, []int{3, 1})
	c.W.Ack, c.W.AckSkip = 6, 3
	c.W.Commit = 2
	c.Faults = t.Draw(5, nil) >= 2 // 40% of runs are fault-free
	c.QuiesceBudget = 9 * time.Second
	s.maxRest = 1
	switch s.prop {
	case "C04":
		c.W.AckStale, c.W.AckSkip, c.W.API, c.W.Scrape = 3, 5, 1, 1
		c.Faults = false
		if !strings.HasPrefix(c.ConsumerMode, "deferred") && t.Draw(2, nil) == 0 {
			c.YieldSites = map[string]bool{"consumer.trackoffset": true} // a save may land inside an acknowledgement
			c.W.Commit = 3
		}
	case "C05":
		if c.Faults {
			c.W.ReplyErr, c.W.Stall = 2, 1
			c.DelayFaults = true
			if t.Draw(3, nil) == 0 {
				c.W.ConnDrop = 1
			}
		}
		c.W.Commit = 3
		if t.Draw(3, nil) == 0 {
			c.W.Close = 1 // the save performed during Close
		}
		if !strings.HasPrefix(c.ConsumerMode, "deferred") && t.Draw(2, nil) == 0 {
			c.YieldSites = map[string]bool{"consumer.trackoffset": true}
		}
	case "C01":
		c.W.Crash = 1
		if c.Faults {
			c.W.ReplyErr = 1
		}
		s.maxRest = 2
		c.MaxSteps += 150
	case "C06":
		c.W.Close, c.W.Crash = 1, 1
		c.ItemKindW = []int{10, 3, 2, 2, 1, 1}
		c.Faults = false
		if t.Draw(6, nil) == 0 {
			c.Extra["badsnap"] = "1" // sub-scenario: the server emits an item outside its announced snapshot
		}
	case "C13":
		c.W.Close = 0
		s.closeAt = 20 + t.Draw(c.MaxSteps-20, nil)
		c.W.Park = 1
		c.RM = t.Draw(3, nil) == 0
		c.HealthCheck = t.Draw(3, nil) == 0
		c.HealthInterval = time.Duration(2011+1000*t.Draw(8, nil)) * time.Millisecond
		if c.Faults {
			c.W.ReplyErr, c.W.Stall = 1, 1
			c.DelayFaults = true
			if t.Draw(3, nil) == 0 {
				// only failing saves, and Close() soon after one of them has failed
				c.W.ReplyErr, c.W.Stall, c.DelayFaults = 3, 0, false
				c.Extra["failsave"] = "1"
			}
		}
		s.maxRest = 0
		c.QuiesceBudget = 200 * time.Second
		c.AdvEventMax = 20 * time.Second
		if t.Draw(4, nil) == 0 {
			c.Version = [3]int{5, 0, 1} // serial close path
		}
	case "C16":
		c.W.Scrape, c.W.API, c.W.Close = 3, 1, 1
		s.maxRest = 0
		c.Faults = false
		if t.Draw(3, nil) == 0 {
			// events older than dcp.listener.skipUntil are dropped by the library: they must not be counted as accepted
			c.CasMode, c.SkipUntilSec, c.SkipUntil = "boundary", 1_800_000_000, true
		}
	case "C14":
		// closed loop: the checkpoint documents live in the streamed bucket, every checkpoint write comes back
		// as a mutation; several groups may share the bucket; the workload is rich in reserved-prefix keys
		elsewhere := t.Draw(5, nil) == 0 // the connector's documents in a file or a dedicated bucket: transaction records still sit in the streamed bucket
		if !elsewhere || c.MetaBucket == "" && c.Metadata != "file" {
			elsewhere = false
			c.MetaBucket, c.Metadata = c.Bucket, "couchbase"
		}
		c.Faults = t.Draw(3, nil) == 0
		if c.Faults {
			c.W.ReplyErr = 2 // checkpoint writes answered with an error status: failed saves in the closed loop
		}
		c.KeyClassW = []int{6, 4, 3, 2, 2}
		c.W.Crash = 0
		s.maxRest = 0
		c.QuiesceBudget = 15 * time.Second
		names := []string{"grp", "g", "a:b", "grp:checkpoint:1", "x_y-z", "\u00fcn\u0131", " sp ", "grp2", strings.Repeat("long-group-name-", 14) + "x"}
		switch t.Draw(10, nil) {
		case 0:
			s.groups = []string{Pick(t, []string{"a.b", ".a", "a.", "."}, nil)}
			c.Extra["dotted"] = "1"
		case 1, 2, 3, 4:
			a := t.Draw(len(names), nil)
			b := (a + 1 + t.Draw(len(names)-1, nil)) % len(names)
			s.groups = []string{names[a], names[b]}
		default:
			s.groups = []string{Pick(t, names, nil)}
		}
		if elsewhere && (len(s.groups) > 1 || c.Extra["dotted"] != "") {
			c.MetaBucket, c.Metadata = c.Bucket, "couchbase"
		} else if elsewhere {
			c.Extra["metadata-elsewhere"] = "1"
		}
		c.Group = s.groups[0]
	}
	w.buildCluster()
	w.cl.collections["s1.c1"] = 8
	w.cl.collections["s1.c2"] = 9
	c.Extra["coll:8"], c.Extra["coll:9"] = "c1", "c2"
	if c.Metadata == "file" {
		w.disk = newDisk(w)
		w.disk.seams = s.prop == "C01" && t.Draw(2, nil) == 0
	}
}

func isCheckpointKey(k []byte) bool {
	return strings.HasPrefix(string(k), "_connector:cbgo:") && strings.Contains(string(k), ":checkpoint:")
}

func (s *scLife) ErrVariants(w *World, q *Req) []replyVariant {
	switch q.pkt.Command {
	case memd.CmdSubDocMultiMutation, memd.CmdSet, memd.CmdAdd:
		if isCheckpointKey(q.pkt.Key) {
			return []replyVariant{{name: "access", status: memd.StatusAccessError}, {name: "internal", status: memd.StatusInternalError}, {name: "tmpfail", status: memd.StatusTmpFail}}
		}
	}
	return nil
}

func (s *scLife) MayStall(w *World, c *Conn) bool {
	// only stall a connection while a checkpoint write is waiting on it
	for _, q := range c.queue {
		if isCheckpointKey(q.pkt.Key) && q.pkt.Command != memd.CmdSubDocMultiLookup {
			return true
		}
	}
	return c.stalled
}

// MayDrop: C05 only, and only the KV / metadata connection while a checkpoint write waits on it (a
// fault while idle tests nothing; dropping the DCP connection is C12's subject).
func (s *scLife) MayDrop(w *World, c *Conn) bool {
	if s.prop != "C05" || c.role == "d" || c.closed || c.zombie {
		return false
	}
	for _, q := range c.queue {
		if isCheckpointKey(q.pkt.Key) && q.pkt.Command != memd.CmdSubDocMultiLookup {
			return true
		}
	}
	return false
}

var lifecycleCallbacks = []string{"BeforeStreamStart", "AfterStreamStart", "BeforeStreamStop", "AfterStreamStop", "BeforeRebalanceStart", "AfterRebalanceStart", "BeforeRebalanceEnd", "AfterRebalanceEnd"}

// drawHookScrapes: in a third of the C16 runs the application scrapes from inside some lifecycle callbacks.
func drawHookScrapes(w *World, m *Member) {
	if w.tape.Draw(3, nil) != 0 {
		return
	}
	m.hookScrape = map[string]bool{}
	for _, cb := range lifecycleCallbacks {
		if w.tape.Draw(3, nil) == 0 {
			m.hookScrape[cb] = true
		}
	}
}

func (s *scLife) TuneMember(w *World, m *Member) {
	if s.prop == "C16" {
		drawHookScrapes(w, m)
	}
	if s.prop == "C14" && m.id <= len(s.groups) {
		m.cfg.Dcp.Group.Name = s.groups[m.id-1]
	}
}

func (s *scLife) Boot(w *World) {
	if s.prop == "C14" {
		if w.cfg.Extra["dotted"] == "1" {
			w.jl(&journal.Ev{K: journal.KExpect, Vb: -1, S: "unsupported group name includes dot"})
		}
		for range s.groups {
			w.addMember().start()
		}
		return
	}
	w.addMember().start()
}

func (s *scLife) BeforeStep(w *World) {}

// closeWeight biases Close() towards the lifecycle states the property names: a delivery in progress,
// a save in flight, a health-check round that is retrying.
func (s *scLife) closeWeight(w *World, m *Member) int {
	if s.closeAt == 0 || w.step < s.closeAt {
		return w.cfg.W.Close
	}
	wt := 2
	w.mu.Lock()
	defer w.mu.Unlock()
	if m.parked != nil {
		wt = 25
	}
	for _, c := range w.cl.conns {
		if c.member != m.id || c.zombie || c.closed {
			continue
		}
		for _, q := range c.queue {
			if isCheckpointKey(q.pkt.Key) {
				wt = 25
			}
		}
	}
	if w.cl.mgmtMode != "ok" && w.cfg.HealthCheck {
		wt = 25
	}
	if w.cfg.Extra["failsave"] == "1" && wt != 25 {
		if n := w.faultsFired["err:access"] + w.faultsFired["err:internal"]; n > s.errsSeen {
			wt = 40 // a save has just failed and nothing is in flight
		}
	}
	return wt
}

func (w *World) closeMember(m *Member) {
	w.mu.Lock()
	m.closing = true
	w.mu.Unlock()
	m.call("Close", func() string { m.d.Close(); return "" })
}

func (s *scLife) MemberActions(w *World, m *Member) []Action {
	c := w.cfg
	var acts []Action
	id := fmt.Sprintf("m%d", m.id)
	if m.ready && (m.stopped || m.closing) && s.prop == "C16" && !m.scraping && m.lateScrapes < 4 {
		m.lateScrapes++
		// scraping while the stream is closing / closed must neither block nor crash
		m.lateScrapes--
		return []Action{{ID: "scrape|" + id, W: c.W.Scrape, Do: func() { m.lateScrapes++; m.scrape() }}}
	}
	if !m.ready || m.stopped || m.closing {
		return nil
	}
	acts = append(acts, Action{ID: "commit|" + id, W: c.W.Commit, Do: func() {
		m.call("Commit", func() string { m.d.Commit(); return "" })
	}})
	if c.YieldSites["consumer.trackoffset"] && !m.trackPark {
		acts = append(acts, Action{ID: "parktrack|" + id, W: 3, Do: func() { w.mu.Lock(); m.trackPark = true; w.mu.Unlock() }})
	}
	acts = append(acts, Action{ID: "close|" + id, W: s.closeWeight(w, m), Do: func() { w.closeMember(m) }})
	acts = append(acts, Action{ID: "crash|" + id, W: c.W.Crash, Do: func() { m.crash() }})
	if !m.scraping {
		acts = append(acts, Action{ID: "scrape|" + id, W: c.W.Scrape, Do: func() { m.scrape() }})
	}
	acts = append(acts, Action{ID: "api-offset|" + id, W: c.W.API, Do: func() { m.apiCall("GET", "/states/offset", "") }})
	if s.prop == "C04" && strings.HasPrefix(m.mode, "deferred") {
		// acknowledgements racing on different vBuckets
		w.mu.Lock()
		var vbs []int
		for vb, l := range m.unacked {
			if len(l) > 0 && (m.parked == nil || m.parked.vb != vb) {
				vbs = append(vbs, vb)
			}
		}
		w.mu.Unlock()
		sort.Ints(vbs)
		if len(vbs) >= 2 {
			acts = append(acts, Action{ID: "ackburst|" + id, W: 4, Do: func() {
				n := 2 + w.tape.Draw(len(vbs)-1, nil)
				var evs []*DEvent
				w.mu.Lock()
				for _, vb := range vbs[:n] {
					l := m.unacked[vb]
					evs = append(evs, l[w.tape.Draw(len(l), nil)%len(l)])
				}
				w.mu.Unlock()
				w.probe("ack-burst")
				var wg sync.WaitGroup
				start := make(chan struct{})
				for _, e := range evs {
					e := e
					wg.Add(1)
					go func() { defer wg.Done(); <-start; m.ack(e) }()
				}
				close(start)
			}})
		}
	}
	return acts
}

// Actions: start a replacement member after a crash or a close.
func (s *scLife) Actions(w *World) []Action {
	var acts []Action
	if s.prop == "C06" && !s.badDone && w.cfg.Extra["badsnap"] == "1" {
		w.mu.Lock()
		for _, st := range w.sortedStreams() {
			st := st
			if !w.cl.canEmit(st) || st.inSnap || st.cursor >= st.end || st.snapEnd > st.cursor {
				continue
			}
			for _, variant := range []string{"above", "below", "nomarker"} {
				variant := variant
				if variant == "nomarker" && st.lastSent != st.cursor {
					continue
				}
				acts = append(acts, Action{ID: "badsnap|" + variant + "|" + st.sid, W: 1, Do: func() {
					s.badDone = true
					w.jl(&journal.Ev{K: journal.KExpect, Vb: -1, S: "seqNo not in snapshot"})
					w.fault("badsnap:"+variant, st.sid)
					w.mu.Lock()
					st.badSnap = variant
					w.mu.Unlock()
				}})
			}
		}
		w.mu.Unlock()
	}
	if s.prop == "C13" && w.cfg.HealthCheck && w.cfg.Faults {
		// the mgmt endpoint (second half of every ping) starts failing / recovers
		w.mu.Lock()
		mode := w.cl.mgmtMode
		w.mu.Unlock()
		next := "error"
		wt := 1
		if mode != "ok" {
			next, wt = "ok", 3
		}
		acts = append(acts, Action{ID: "mgmt|" + next, W: wt, Do: func() {
			w.mu.Lock()
			w.cl.mgmtMode = next
			w.mu.Unlock()
			if next != "ok" {
				w.jl(&journal.Ev{K: journal.KExpect, Vb: -1, S: "some services are not healthy"})
				w.fault("mgmt:"+next, "")
			}
		}})
	}
	if s.prop == "C16" && s.transientEnds < 2 && w.ready1() {
		// the server ends a stream with a re-openable status; the library reopens it and every gauge stays truthful
		w.mu.Lock()
		for _, st := range w.sortedStreams() {
			st := st
			m := w.members[st.conn.member-1]
			if !st.open || m.closing || m.stopped || m.crashed || !m.ready {
				continue
			}
			acts = append(acts, Action{ID: "end|too-slow|" + st.sid, W: 1, Do: func() {
				s.transientEnds++
				w.fault("end:too-slow", st.sid)
				w.mu.Lock()
				st.endStat = 4
				w.cl.emitEnd(st)
				w.mu.Unlock()
			}})
		}
		w.mu.Unlock()
	}
	if s.prop == "C13" && w.cfg.Faults && s.endsInClose < 2 {
		// a stream ends with a connection-type status while the shutdown is closing the streams
		w.mu.Lock()
		for _, st := range w.sortedStreams() {
			st := st
			m := w.members[st.conn.member-1]
			if !st.open || !m.closing || m.stopped || m.crashed {
				continue
			}
			for _, es := range []struct {
				name   string
				status int
			}{{"state-changed", 2}, {"disconnected", 3}, {"too-slow", 4}} {
				es := es
				acts = append(acts, Action{ID: fmt.Sprintf("end-during-close|%s|%s", es.name, st.sid), W: 2, Do: func() {
					s.endsInClose++
					w.fault("end-during-close:"+es.name, st.sid)
					w.mu.Lock()
					st.endStat = es.status
					w.cl.emitEnd(st)
					w.mu.Unlock()
				}})
			}
		}
		w.mu.Unlock()
	}
	if w.disk != nil && w.cfg.Faults && (s.prop == "C05" || s.prop == "C13") {
		// the next write of the checkpoint file fails: disk full (file already truncated), I/O error (file
		// untouched), short write (half of the new content)
		w.mu.Lock()
		armed := w.disk.failOp != ""
		w.mu.Unlock()
		if !armed {
			for _, kind := range []string{"enospc", "eio", "short"} {
				kind := kind
				acts = append(acts, Action{ID: "diskfail|" + kind, W: 1, Do: func() {
					w.mu.Lock()
					w.disk.failOp = kind
					w.mu.Unlock()
				}})
			}
		}
	}
	live := 0
	for _, m := range w.members {
		if !m.crashed && !m.stopped {
			live++
		}
	}
	if live == 0 && s.restarts < s.maxRest {
		acts = append(acts, Action{ID: "restart", W: 30, Do: func() {
			s.restarts++
			w.addMember().start()
		}})
	}
	return acts
}

func (s *scLife) OnQuiesce(w *World) {
	if w.disk != nil {
		w.mu.Lock()
		w.disk.failOp = "" // an armed fault that found no write does not fire in the fault-free phase
		w.mu.Unlock()
	}
	// a crashed group is restarted so that the resume position can be judged
	live := 0
	for _, m := range w.members {
		if !m.crashed && !m.stopped {
			live++
		}
	}
	if live == 0 && (s.prop == "C01" || s.prop == "C06") && s.restarts <= s.maxRest {
		s.restarts++
		w.addMember().start()
	}
}
