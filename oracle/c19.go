package oracle

import (
	"fmt"
	"strconv"
	"strings"

	"verif/journal"
)

// C19 — health checking is fail-stop after five consecutive failures, and stoppable.
//
// Reference model: pings of one round are one second apart; a success ends the round; five consecutive
// failures in one round terminate the process, and nothing else does. Stop() cancels: no ping begins
// after Stop() was called (one already in flight may finish), Stop() returns promptly, repeated Start /
// Stop are harmless.
func init() { checkers["C19"] = checkC19 }

func checkC19(run *Run, res *Result) {
	cfg := &run.Cfg
	interval, _ := strconv.ParseInt(cfg.Extra["interval_ns"], 10, 64)
	const retry = int64(1_000_000_000)
	consecutive := 0
	var lastPingEndT, lastPingBeginT int64
	lastResult := ""
	inFlight := false
	stopCallT, stopCallN := int64(-1), 0
	stopRet := false
	stopRetT := int64(-1)
	pingsAfterStopCall := 0
	openStops := map[string]int64{}
	fiveInARound := false
	fiveAmbiguous := false
	pattern := ""
	for i := range run.Evs {
		e := &run.Evs[i]
		switch e.K {
		case journal.KCall:
			switch e.S {
			case "Ping":
				inFlight = true
				if stopRetT >= 0 && e.T >= stopRetT {
					res.violate("C19", "R3-ping-after-stop", e.N, "plain", "a ping was issued %s after Stop() had returned", fmtDur(e.T-stopRetT))
				}
				if stopCallT >= 0 && e.T > stopCallT {
					pingsAfterStopCall++
					if pingsAfterStopCall > 1 {
						res.violate("C19", "R3-round-continues-after-stop", e.N, "plain", "%d pings were issued after Stop() had been called (event #%d): the round was not cancelled", pingsAfterStopCall, stopCallN)
					}
				}
				if lastResult == "fail" && consecutive > 0 {
					gap := e.T - lastPingEndT
					switch {
					case gap < retry-2_000_000 && stopCallT >= 0:
						// not a retry (those wait one second): Stop() cancelled the round and a tick that was already
						// pending started a new one before the loop noticed the cancellation
						consecutive = 0
						pattern += "|"
					case gap < retry-2_000_000:
						res.violate("C19", "R2-retry-without-wait", e.N, "plain", "after a failed ping the next one started %s later (the retry wait is 1s)", fmtDur(gap))
					case gap > retry+interval:
						consecutive = 0 // this ping opens a new round
						pattern += "|"
					}
				} else if lastResult == "ok" && lastPingBeginT > 0 {
					pattern += "|"
				}
				lastPingBeginT = e.T
			case "Stop":
				if stopCallT < 0 {
					stopCallT, stopCallN = e.T, e.N
					switch {
					case inFlight:
						res.probe("stop:during-ping")
					case lastResult == "fail" && consecutive > 0 && e.T-lastPingEndT < retry:
						res.probe("stop:during-retry-wait")
					default:
						res.probe("stop:between-rounds")
					}
				} else {
					res.probe("repeated-stop")
				}
				openStops[e.ID] = e.T
			case "Start":
				if stopCallT >= 0 || lastPingBeginT > 0 {
					res.probe("repeated-start")
				}
			}
		case journal.KRet:
			switch e.S {
			case "Ping":
				inFlight = false
				lastPingEndT, lastResult = e.T, e.S2
				if e.S2 == "fail" {
					consecutive++
					pattern += "F"
					if consecutive >= 5 {
						if stopCallT >= 0 && lastPingBeginT >= stopCallT {
							// Stop() was called at the very instant the retry timer fired: the runtime's select decides
							// whether this ping was the round's fifth attempt (fail-stop) or the first ping of a stray
							// round started by a pending tick after the cancellation (harmless). Both are legitimate.
							fiveAmbiguous = true
							res.probe("fifth-failure-after-stop-was-called")
						} else {
							fiveInARound = true
						}
					}
				} else {
					consecutive = 0
					pattern += "S"
				}
			case "Stop":
				stopRet = true
				if stopRetT < 0 {
					stopRetT = e.T
				}
				if t0, ok := openStops[e.ID]; ok {
					delete(openStops, e.ID)
					from := t0
					if lastPingEndT > from {
						from = lastPingEndT // Stop() waits for a ping that is in flight (the real Ping has its own timeout)
					}
					if e.T-from > 50_000_000 {
						res.violate("C19", "R3-stop-slow", e.N, "plain", "Stop() returned %s after it was called and the ping in flight had finished", fmtDur(e.T-from))
					}
				}
			}
		}
	}
	_ = stopRet
	res.probe("pattern:" + strings.Trim(pattern, "|"))
	died := run.ExitCode != 0 && (res.DeathKind == "expected" || res.DeathKind == "library-failstop" || res.DeathKind == "runtime-panic")
	healthPanic := died && strings.Contains(res.FailStop, "performHealthCheck")
	switch {
	case fiveInARound && !died && run.Ended:
		res.violate("C19", "R1-survived-five-failures", len(run.Evs), "plain", "five consecutive pings of one round failed (%s) and the process kept running", pattern)
	case died && !fiveInARound && !fiveAmbiguous:
		res.violate("C19", "R1-terminated-without-five-consecutive-failures", len(run.Evs), "plain",
			"the process terminated (%s) although no round had five consecutive failing pings (outcomes so far: %s)", res.FailStop, pattern)
	case died && !healthPanic:
		res.violate("C19", "R4-crashed", len(run.Evs), "plain", "the process died outside the health checker's own fail-stop: %s", res.FailStop)
	}
	if fiveInARound {
		res.probe("five-consecutive-failures")
	}
	if run.Ended {
		for id, t0 := range openStops {
			last := run.Evs[len(run.Evs)-1].T
			if !inFlight && last-t0 > 3_000_000_000 {
				res.violate("C19", "R3-stop-blocked", len(run.Evs), "plain", "Stop() (call %s) had not returned %s after it was called, with no ping in flight", id, fmtDur(last-t0))
			}
		}
	}
	_ = fmt.Sprint
}
