//go:build verif

// Package vfs is the simulated disk behind go-dcp's file metadata backend (simulation build only).
// The simulator installs the three functions; the default is the real file system.
package vfs

import "os"

var (
	WriteFileFn = os.WriteFile
	ReadFileFn  = os.ReadFile
	RemoveFn    = os.Remove
)

func WriteFile(name string, data []byte, perm os.FileMode) error {
	return WriteFileFn(name, data, perm)
}
func ReadFile(name string) ([]byte, error) { return ReadFileFn(name) }
func Remove(name string) error             { return RemoveFn(name) }
