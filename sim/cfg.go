package sim

import (
	"time"
)

// Weights bias exploration only; in a replay every enabled action is addressable by index.
type Weights struct {
	Reply, ReplyErr, Emit, AdvEvent, Advance, ExtWrite, Stall, ConnDrop, ReplyBurst, LateEnd int
	Ack, AckSkip, AckStale, Park, Unpark                                                     int
	Close, Crash, Commit, Scrape, API, Publish, Persist, Failover                            int
	EndStream                                                                                int
}

// Cfg is the configuration of one run: drawn from the tape (swarm), so a replay file needs nothing else.
type Cfg struct {
	Prop, Tier      string
	Variant         string
	MaxSteps        int
	QuiesceMaxSteps int
	QuiesceBudget   time.Duration
	AdvEventMax     time.Duration
	Advances        []time.Duration
	QuiesceEmit     bool
	QuiesceAck      bool

	NVb, NNodes, NReplicas int
	Bucket, MetaBucket     string
	BucketType             string
	Version                [3]int
	CccpPoll               time.Duration

	MaxItems, PreItems int
	ItemKinds          []string
	ItemKindW          []int
	KeyClasses         []string
	KeyClassW          []int
	Collections        []uint32
	CollectionNames    []string
	ScopeName          string
	CasMode            string
	SkipUntilSec       int64
	SkipUntil          bool
	SeqnoCollHigh      bool
	SeqnoOmitVb        int // vb+1 left out of every GET_ALL_VB_SEQNOS reply (0: none)

	Group            string
	Membership       string
	MembershipConfig map[string]string
	MemberNumber     int
	TotalMembers     int
	RebalanceDelay   time.Duration
	DcpMode          string
	RM               bool
	RMInterval       time.Duration
	RMConfigWatch    time.Duration
	HealthCheck      bool
	HealthInterval   time.Duration
	HealthTimeout    time.Duration
	CkptType         string
	AutoReset        string
	CkptInterval     time.Duration
	CkptTimeout      time.Duration
	Metadata         string
	ReadOnly         bool
	ConsumerMode     string
	Faults           bool
	DelayFaults      bool
	BootFaults       bool
	MaxReplyDelay    time.Duration // with delay faults: longest time a request may wait before the clock is held (0 = unbounded)
	Extra            map[string]string
	YieldSites       map[string]bool // armed pre-emption points (tools/instrument yieldSites)

	W Weights
}

func (c *Cfg) versionAtLeast(a, b, d int) bool {
	v := c.Version
	if v[0] != a {
		return v[0] > a
	}
	if v[1] != b {
		return v[1] > b
	}
	return v[2] >= d
}

// defaultCfg is the fault-free single-member baseline every scenario starts from.
func defaultCfg(prop, tier string) *Cfg {
	c := &Cfg{
		Prop: prop, Tier: tier,
		MaxSteps: 300, QuiesceMaxSteps: 3000, QuiesceBudget: 5 * time.Second, AdvEventMax: 3 * time.Second,
		Advances:    []time.Duration{time.Millisecond, 97 * time.Millisecond, 1013 * time.Millisecond},
		QuiesceEmit: true, QuiesceAck: true,
		NVb: 4, NNodes: 1, NReplicas: 0, Bucket: "src", MetaBucket: "src", BucketType: "membase", Version: [3]int{7, 2, 0},
		CccpPoll: time.Hour,
		MaxItems: 12, PreItems: 3,
		ItemKinds: []string{"mut", "del", "exp"}, ItemKindW: []int{6, 2, 1},
		KeyClasses: []string{"plain"}, KeyClassW: []int{1},
		Group: "grp", Membership: "static", MemberNumber: 1, TotalMembers: 1, RebalanceDelay: 20 * time.Second,
		DcpMode: "infinite", RM: false, RMInterval: 503 * time.Millisecond, RMConfigWatch: 2003 * time.Millisecond,
		HealthInterval: 20011 * time.Millisecond, HealthTimeout: 4999 * time.Millisecond,
		CkptType: "auto", AutoReset: "earliest", CkptInterval: 997 * time.Millisecond, CkptTimeout: 3001 * time.Millisecond,
		Metadata: "couchbase", ConsumerMode: "immediate", Extra: map[string]string{},
	}
	c.W = Weights{Reply: 12, ReplyBurst: 2, Emit: 10, AdvEvent: 3, Advance: 1, ExtWrite: 4, Ack: 6, AckSkip: 2, Unpark: 4}
	if tier == "thorough" {
		c.MaxSteps = 700
	}
	return c
}

// Scenario adapts the generic world to one property's workload and fault space.
type Scenario interface {
	Configure(w *World)              // draw the swarm parameters, build cluster, preload
	Boot(w *World)                   // start the initial members
	TuneMember(w *World, m *Member)  // adjust a member's go-dcp config
	BeforeStart(w *World, m *Member) // after the Dcp object exists, before Start()
	BeforeStep(w *World)             // scripted steps; may set w.done
	Actions(w *World) []Action       // scenario-specific actions
	MemberActions(w *World, m *Member) []Action
	ErrVariants(w *World, q *Req) []replyVariant
	ReplyWeight(w *World, q *Req) (int, bool)
	MayStall(w *World, c *Conn) bool
	MayDrop(w *World, c *Conn) bool
	HoldClock(w *World) bool // true while something is waiting whose delay would be a fault of its own
	OnQuiesce(w *World)
	AfterQuiesce(w *World)
}

type baseScn struct{}

func (baseScn) Configure(w *World)                          {}
func (baseScn) Boot(w *World)                               { w.addMember().start() }
func (baseScn) TuneMember(w *World, m *Member)              {}
func (baseScn) BeforeStart(w *World, m *Member)             {}
func (baseScn) BeforeStep(w *World)                         {}
func (baseScn) Actions(w *World) []Action                   { return nil }
func (baseScn) MemberActions(w *World, m *Member) []Action  { return nil }
func (baseScn) ErrVariants(w *World, q *Req) []replyVariant { return nil }
func (baseScn) ReplyWeight(w *World, q *Req) (int, bool)    { return 0, false }
func (baseScn) MayStall(w *World, c *Conn) bool             { return true }
func (baseScn) MayDrop(w *World, c *Conn) bool              { return true }
func (baseScn) HoldClock(w *World) bool                     { return false }
func (baseScn) OnQuiesce(w *World)                          {}
func (baseScn) AfterQuiesce(w *World)                       {}

var scenarios = map[string]func() Scenario{}

func (w *World) addMember() *Member {
	m := w.newMember(len(w.members) + 1)
	w.members = append(w.members, m)
	return m
}

// buildCluster creates the cluster and buckets from the configuration and preloads items.
func (w *World) buildCluster() {
	c := w.cfg
	w.cl = newCluster(w, c.NNodes)
	w.cl.addBucket(c.Bucket, c.NVb, c.NReplicas)
	if c.MetaBucket != "" && c.MetaBucket != c.Bucket {
		w.cl.addBucket(c.MetaBucket, c.NVb, 0)
	}
	b := w.cl.buckets[c.Bucket]
	for vb := 0; vb < c.NVb; vb++ {
		for i := 0; i < c.PreItems; i++ {
			w.extWrites[vb]++
			it := w.genItem(vb)
			w.cl.extWrite(b, vb, it)
		}
	}
}
