package oracle

import (
	"fmt"
	"strconv"
	"strings"

	"verif/journal"
)

// C14 — the library never feeds on its own writes.
//
// Reference model (closed loop: the checkpoint documents live in the streamed bucket):
//
//	R1  every document a member writes has a key prefix+<its group>+":checkpoint:"+<vb> (or, for the
//	    heart-beat membership, prefix+<group>+":instance:"+...), the stored position belongs to that vBucket,
//	    and no key is written on behalf of two different (group, vBucket) pairs;
//	R2  a group name containing a dot is rejected before anything is written;
//	R3  a vBucket whose position moved only because reserved-prefix events were absorbed is not written:
//	    every checkpoint write of (member, vb) after the first is preceded - since the previous write of that
//	    vb was sent - by an acknowledgement on that vb or by an absorbed non-document stream event;
//	R4  events with a reserved-prefix key are never shown to the consumer;
//	R5  they still advance the position: TrackOffset reaches their seqno.
func init() { checkers["C14"] = checkC14 }

type c14ans struct {
	cmd, status string
	used        bool
}

func reservedKey(k []byte) bool { return isInternalKey(k) }

func checkC14(run *Run, res *Result) {
	cfg := &run.Cfg
	group := map[int]string{}
	alive := map[int]bool{}
	disturbed := map[int]bool{} // closed / crashed members: R5 not judged
	type mk struct{ m, vb int }
	type emitted struct {
		kinds    map[string]bool
		reserved bool
		n        int
	}
	items := map[mk]map[uint64]*emitted{}
	lastAns := map[string]*c14ans{}    // member|key -> the latest answered write request
	prevAttemptN := map[mk]int{}       // journal N of the first request of the previous save attempt
	attempts := map[mk]int{}           //
	lastJust := map[mk]int{}           // journal N of the latest justification
	lastJustWhat := map[mk]string{}    //
	owner := map[string]string{}       // key -> "group|vb"
	maxTrack := map[mk]uint64{}        //
	pendingReserved := map[mk]uint64{} // highest reserved-prefix seqno emitted
	pendingN := map[mk]int{}
	epT := map[int]int64{}
	epVbs := map[int]map[int]bool{}
	dotted := func(g string) bool { return strings.Contains(g, ".") }
	for i := range run.Evs {
		e := &run.Evs[i]
		switch e.K {
		case journal.KMember:
			group[e.M] = e.A["group"]
			alive[e.M] = true
			if dotted(group[e.M]) {
				res.probe("dotted-group-name")
			}
			if strings.Contains(group[e.M], ":") {
				res.probe("group-name-with-colon")
			}
		case journal.KCrash:
			disturbed[e.M] = true
		case journal.KCall:
			if e.S == "Close" {
				disturbed[e.M] = true
			}
		case journal.KRsp:
			if e.M > 0 && isCkptKey(e.Key) && e.S != "CMD_SUBDOCMULTILOOKUP" {
				lastAns[fmt.Sprintf("%d|%s", e.M, e.Key)] = &c14ans{cmd: e.S, status: e.S2}
			}
			// a failed save re-marks everything it had dumped: every vBucket of that save episode (its write
			// requests reach the node at one fake instant) may legitimately be written again
			if e.M > 0 && isCkptKey(e.Key) && e.S != "CMD_SUBDOCMULTILOOKUP" && e.S2 != "ok" && e.S2 != "0x01" { // (also TMPFAIL / EBUSY: gocbcore retries them, but the save may run into its timeout meanwhile and fail as a whole)
				for vb := range epVbs[e.M] {
					k := mk{e.M, vb}
					lastJust[k], lastJustWhat[k] = e.N, "failed-save"
				}
				res.probe("failed-save-in-closed-loop")
			}
		case journal.KReq:
			if e.M > 0 && isCkptKey(e.Key) && (strings.Contains(e.S, "MUTATION") || e.S == "CMD_SET" || e.S == "CMD_ADD") {
				// One save attempt of (member, vBucket) is a chain of requests: xattr upsert (-> "not found" -> create ->
				// xattr upsert). Attempts, not applied writes, are judged: a request the client gave up on (a sibling of
				// the same save failed) may still be applied by the node much later.
				id := fmt.Sprintf("%d|%s", e.M, e.Key)
				la := lastAns[id]
				cont := la != nil && !la.used && (la.cmd == e.S && (la.status == "0x86" || la.status == "0x85") || // gocbcore retries TMPFAIL / EBUSY itself
					la.cmd == "CMD_SUBDOCMULTIMUTATION" && la.status == "0x01" && e.S != "CMD_SUBDOCMULTIMUTATION" ||
					(la.cmd == "CMD_SET" || la.cmd == "CMD_ADD") && la.status == "ok" && e.S == "CMD_SUBDOCMULTIMUTATION")
				if la != nil {
					la.used = true
				}
				if !cont {
					vb := ckptVb(e.Key)
					k := mk{e.M, vb}
					// save episode = the attempts that start within a few milliseconds of each other (the scheduler's
					// clock ticks a little after every step); retries and create-then-upsert chains do not start one
					if e.T-epT[e.M] > 50_000_000 || epVbs[e.M] == nil {
						epT[e.M], epVbs[e.M] = e.T, map[int]bool{}
					}
					epVbs[e.M][vb] = true
					attempts[k]++
					res.probe("checkpoint-write-judged")
					switch {
					case attempts[k] == 1:
						if lastJust[k] == 0 && cfg.AutoReset != "latest" {
							// (with auto-reset latest a fresh session marks every non-empty vBucket for saving by design)
							res.violate("C14", "R3-reserved-event-flagged-for-saving", e.N, "first-write",
								"member %d sends a checkpoint write for vb %d although the vBucket has seen no acknowledgement and no stream event other than reserved-prefix documents since the session began",
								e.M, vb)
						}
					case lastJust[k] < prevAttemptN[k]:
						res.violate("C14", "R3-reserved-event-flagged-for-saving", e.N, "plain",
							"member %d sends the checkpoint of vb %d again although since its previous write was sent (event #%d) the vBucket saw no acknowledgement, no stream event other than reserved-prefix documents and no failed save: an absorbed event flagged the position for saving",
							e.M, vb, prevAttemptN[k])
					default:
						res.probe("rewrite-justified-by:" + lastJustWhat[k])
					}
					prevAttemptN[k] = e.N
				}
			}
		case journal.KEmit:
			if e.M == 0 {
				continue
			}
			k := mk{e.M, e.Vb}
			switch {
			case isDocKind(e.S):
				if items[k] == nil {
					items[k] = map[uint64]*emitted{}
				}
				it := items[k][e.Seq]
				if it == nil {
					it = &emitted{kinds: map[string]bool{}}
					items[k][e.Seq] = it
				}
				it.kinds[e.S] = true
				it.n = e.N
				if reservedKey(e.Key) {
					it.reserved = true
					res.probe("reserved-prefix-event-emitted")
					if strings.HasPrefix(string(e.Key), txnPrefix) {
						res.probe("transaction-record-emitted")
					}
					if isCkptKey(e.Key) {
						res.probe("own-checkpoint-write-fed-back")
					}
					if e.Seq > pendingReserved[k] {
						pendingReserved[k], pendingN[k] = e.Seq, e.N
					}
				}
			case e.S == "seqadv" || strings.HasPrefix(e.S, "sys:"):
				if items[k] == nil {
					items[k] = map[uint64]*emitted{}
				}
				it := items[k][e.Seq]
				if it == nil {
					it = &emitted{kinds: map[string]bool{}}
					items[k][e.Seq] = it
				}
				it.kinds[e.S] = true
			}
		case journal.KConsume:
			if reservedKey(e.Key) {
				res.violate("C14", "R4-reserved-key-delivered", e.N, "plain", "member %d: the consumer was shown a %s of key %q on vb %d", e.M, e.S, keyStr(e.Key), e.Vb)
			}
		case journal.KAck:
			k := mk{e.M, e.Vb}
			lastJust[k], lastJustWhat[k] = e.N, "ack"
		case journal.KTrack:
			if e.Off == nil {
				continue
			}
			k := mk{e.M, e.Vb}
			if e.Off.Seq > maxTrack[k] {
				maxTrack[k] = e.Off.Seq
			}
			it := items[k][e.Off.Seq]
			switch {
			case it == nil:
				// a position the node did not emit as an item (resume position, rollback): counts as a reason
				lastJust[k], lastJustWhat[k] = e.N, "position-set"
			case it.reserved && len(it.kinds) == 1 || it.reserved && !it.kinds["seqadv"]:
				res.probe("reserved-prefix-event-absorbed")
			default:
				lastJust[k], lastJustWhat[k] = e.N, "stream-event"
			}
		case journal.KKVW:
			if e.M == 0 {
				continue // seeded by the scenario / external writer
			}
			g := group[e.M]
			key := string(e.Key)
			if !strings.HasPrefix(key, connPrefix) {
				res.violate("C14", "R1-key-outside-reserved-prefix", e.N, "plain", "member %d (group %q) wrote the document %q, which is not under %q", e.M, g, keyStr(e.Key), connPrefix)
				continue
			}
			if dotted(g) {
				res.violate("C14", "R2-dotted-group-accepted", e.N, "plain", "member %d runs with the group name %q, which contains a dot, and wrote %q", e.M, g, keyStr(e.Key))
			}
			rest := strings.TrimPrefix(key, connPrefix)
			if !strings.HasPrefix(rest, g+":") {
				res.violate("C14", "R1-key-of-another-group", e.N, "plain", "member %d of group %q wrote %q", e.M, g, keyStr(e.Key))
				continue
			}
			tail := strings.TrimPrefix(rest, g+":")
			switch {
			case strings.HasPrefix(tail, "checkpoint:"):
				vb, err := strconv.Atoi(strings.TrimPrefix(tail, "checkpoint:"))
				if err != nil || vb < 0 || vb >= cfg.NVb {
					res.violate("C14", "R1-malformed-checkpoint-key", e.N, "plain", "member %d wrote %q: no vBucket id after ':checkpoint:'", e.M, keyStr(e.Key))
					continue
				}
				id := fmt.Sprintf("%s|checkpoint|%d", g, vb)
				if o, ok := owner[key]; ok && o != id {
					res.violate("C14", "R1-key-collision", e.N, "plain", "the key %q is used for %s and for %s", keyStr(e.Key), o, id)
				}
				owner[key] = id
				if e.Off != nil && e.Off.UUID != 0 && e.Off.UUID != uint64(1000+vb) {
					res.violate("C14", "R1-checkpoint-under-wrong-key", e.N, "plain", "member %d stored a position of the vBucket with uuid %d under the key of vb %d (%q)", e.M, e.Off.UUID, vb, keyStr(e.Key))
				}
				if e.Off == nil {
					continue // creation of the empty document that precedes the first xattr write
				}
			case strings.HasPrefix(tail, "instance:"):
				id := g + "|instance|" + strings.TrimPrefix(tail, "instance:")
				if o, ok := owner[key]; ok && o != id {
					res.violate("C14", "R1-key-collision", e.N, "plain", "the key %q is used for %s and for %s", keyStr(e.Key), o, id)
				}
				owner[key] = id
				res.probe("membership-document-write-judged")
			default:
				res.violate("C14", "R1-unknown-document-kind", e.N, "plain", "member %d wrote %q: neither a checkpoint nor a membership document of its group", e.M, keyStr(e.Key))
			}
		}
	}
	if run.Ended && res.DeathKind == "" {
		for k, seq := range pendingReserved {
			if disturbed[k.m] || !alive[k.m] {
				continue
			}
			if maxTrack[k] < seq {
				res.violate("C14", "R5-absorbed-event-did-not-advance", pendingN[k], "plain", "member %d vb %d: the reserved-prefix event at seq %d was emitted (event #%d) but the tracked position ended at %d", k.m, k.vb, seq, pendingN[k], maxTrack[k])
			} else {
				res.probe("absorbed-event-advanced-position")
			}
		}
	}
	for m, g := range group {
		if dotted(g) && res.DeathKind == "" && run.Ended {
			res.violate("C14", "R2-dotted-group-accepted", len(run.Evs), "plain", "member %d ran to the end with the group name %q", m, g)
		}
	}
}
