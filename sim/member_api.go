package sim

import (
	"fmt"
	"io"
	"net/http/httptest"
	"sort"
	"strings"

	"github.com/gofiber/fiber/v2"
	"github.com/prometheus/client_golang/prometheus"
	dto "github.com/prometheus/client_model/go"

	dcp "github.com/Trendyol/go-dcp"
	"github.com/Trendyol/go-dcp/api"
	"github.com/Trendyol/go-dcp/metric"

	"verif/journal"
)

// apiApp builds the real API handler around the member's stream (no TCP listener); requests are
// served in memory with app.Test.
func (m *Member) apiApp() *fiber.App {
	if m.app == nil {
		a := api.NewAPI(m.cfg, m.client, dcp.VerifStream(m.d), nil, nil, m.bus)
		m.app = api.VerifApp(a)
	}
	return m.app
}

// apiCall performs one in-memory HTTP request in an actor goroutine.
func (m *Member) apiCall(method, path, body string) { m.apiCallThen(method, path, body, nil) }

func (m *Member) apiCallThen(method, path, body string, then func()) {
	w := m.w
	name := method + " " + path
	if body != "" {
		name += " " + body
	}
	m.call("api:"+name, func() string {
		req := httptest.NewRequest(method, path, strings.NewReader(body))
		if body != "" {
			req.Header.Set("Content-Type", "application/json")
		}
		resp, err := m.apiApp().Test(req, -1)
		if then != nil {
			then()
		}
		if err != nil {
			w.jl(&journal.Ev{K: journal.KAPI, M: m.id, Vb: -1, S: name, S2: "error: " + err.Error(), I: -1})
			return "error"
		}
		b, _ := io.ReadAll(resp.Body)
		w.jl(&journal.Ev{K: journal.KAPI, M: m.id, Vb: -1, S: name, S2: string(b), I: int64(resp.StatusCode)})
		return fmt.Sprintf("%d", resp.StatusCode)
	})
}

// scrape runs the real metric collector in an actor goroutine and journals every const metric.
func (m *Member) scrape() {
	w := m.w
	w.mu.Lock()
	m.scraping = true
	w.mu.Unlock()
	m.call("scrape", func() string {
		defer func() { w.mu.Lock(); m.scraping = false; w.mu.Unlock() }()
		return m.collect()
	})
}

// collect performs one scrape synchronously (also used from inside the lifecycle callbacks: an
// application that updates its own metrics in a hook scrapes while the stream is between two states).
func (m *Member) collect() string {
	w := m.w
	{
		col := metric.NewMetricCollector(m.client, dcp.VerifStream(m.d), dcp.VerifVBucketDiscovery(m.d))
		ch := make(chan prometheus.Metric, 4096)
		col.Collect(ch)
		close(ch)
		f := map[string]float64{}
		bad := 0
		for pm := range ch {
			var d dto.Metric
			if err := pm.Write(&d); err != nil {
				bad++
				continue
			}
			name := pm.Desc().String()
			if i := strings.Index(name, `fqName: "`); i >= 0 {
				name = name[i+9:]
				name = name[:strings.Index(name, `"`)]
			}
			var lbl []string
			for _, l := range d.Label {
				lbl = append(lbl, l.GetName()+"="+l.GetValue())
			}
			sort.Strings(lbl)
			if len(lbl) > 0 {
				name += "{" + strings.Join(lbl, ",") + "}"
			}
			switch {
			case d.Gauge != nil:
				f[name] = d.Gauge.GetValue()
			case d.Counter != nil:
				f[name] = d.Counter.GetValue()
			}
		}
		w.jl(&journal.Ev{K: journal.KScrape, M: m.id, Vb: -1, F: f, I: int64(bad), B: true})
		return "ok"
	}
}
