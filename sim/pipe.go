package sim

import (
	"io"
	"sync"
)

// half is one direction of an in-memory connection: writes never block (unbounded buffer), reads block
// on a sync.Cond, which testing/synctest treats as durably blocked.
type half struct {
	mu     sync.Mutex
	cond   *sync.Cond
	buf    []byte
	closed bool
}

func newHalf() *half { h := &half{}; h.cond = sync.NewCond(&h.mu); return h }

func (h *half) Write(p []byte) (int, error) {
	h.mu.Lock()
	defer h.mu.Unlock()
	if h.closed {
		return 0, io.ErrClosedPipe
	}
	h.buf = append(h.buf, p...)
	h.cond.Broadcast()
	return len(p), nil
}

func (h *half) Read(p []byte) (int, error) {
	h.mu.Lock()
	defer h.mu.Unlock()
	for len(h.buf) == 0 && !h.closed {
		h.cond.Wait()
	}
	if len(h.buf) == 0 {
		return 0, io.EOF
	}
	n := copy(p, h.buf)
	h.buf = h.buf[n:]
	return n, nil
}

func (h *half) Close() { h.mu.Lock(); h.closed = true; h.cond.Broadcast(); h.mu.Unlock() }

type pipeEnd struct{ r, w *half }

func (e *pipeEnd) Read(p []byte) (int, error)  { return e.r.Read(p) }
func (e *pipeEnd) Write(p []byte) (int, error) { return e.w.Write(p) }
func (e *pipeEnd) Close() error                { e.r.Close(); e.w.Close(); return nil }

func newPipe() (*pipeEnd, *pipeEnd) {
	a, b := newHalf(), newHalf()
	return &pipeEnd{r: a, w: b}, &pipeEnd{r: b, w: a}
}
