// Command instrument prepares what the simulator needs at build time, from files on disk only:
//
//	instrument thirdparty <gomodcache> <outdir>
//	    copies gocbcore v10.5.2 and EventBus out of the module cache and applies the
//	    checked textual patches (dial hooks; durable mutex). Fails loudly if an anchor is missing.
//
//	instrument overlay <repo> <verifdir> <outdir>
//	    reads the CURRENT working tree of <repo>, writes rewritten copies of go-dcp's own sources
//	    (sync.Mutex -> vsync.Mutex; os.*File -> vfs.*File in the file backend) and an overlay.json that
//	    also maps the export shims and helper packages of <verifdir>/overlay into the go-dcp module.
//
// Nothing under <repo> is ever written.
package main

import (
	"encoding/json"
	"fmt"
	"go/parser"
	"go/token"
	"io/fs"
	"os"
	"path/filepath"
	"regexp"
	"sort"
	"strings"
)

func die(f string, a ...any) {
	fmt.Fprintf(os.Stderr, "instrument: "+f+"\n", a...)
	os.Exit(2)
}

func main() {
	if len(os.Args) < 2 {
		die("usage: instrument thirdparty|overlay ...")
	}
	switch os.Args[1] {
	case "thirdparty":
		if len(os.Args) != 4 {
			die("usage: instrument thirdparty <gomodcache> <outdir>")
		}
		thirdParty(os.Args[2], os.Args[3])
	case "overlay":
		if len(os.Args) != 5 {
			die("usage: instrument overlay <repo> <verifdir> <outdir>")
		}
		overlay(os.Args[2], os.Args[3], os.Args[4])
	default:
		die("unknown subcommand %q", os.Args[1])
	}
}

// ---------------------------------------------------------------------------------------------

func copyTree(src, dst string) {
	err := filepath.WalkDir(src, func(p string, d fs.DirEntry, err error) error {
		if err != nil {
			return err
		}
		rel, _ := filepath.Rel(src, p)
		out := filepath.Join(dst, rel)
		if d.IsDir() {
			return os.MkdirAll(out, 0o755)
		}
		if strings.HasSuffix(p, "_test.go") {
			return nil
		}
		b, err := os.ReadFile(p)
		if err != nil {
			return err
		}
		return os.WriteFile(out, b, 0o644)
	})
	if err != nil {
		die("copy %s: %v", src, err)
	}
}

func patchFile(path string, edits ...[2]string) {
	b, err := os.ReadFile(path)
	if err != nil {
		die("%v", err)
	}
	s := string(b)
	for _, e := range edits {
		if strings.Count(s, e[0]) != 1 {
			die("patch anchor not found exactly once in %s: %q (count %d)", path, e[0], strings.Count(s, e[0]))
		}
		s = strings.Replace(s, e[0], e[1], 1)
	}
	if err := os.WriteFile(path, []byte(s), 0o644); err != nil {
		die("%v", err)
	}
}

const durableMutexSrc = `
// dmutex is a channel-backed mutex with sync.Mutex semantics (simulation build only): a goroutine
// blocked on it is durably blocked in a testing/synctest bubble.
type dmutex struct {
	once sync.Once
	ch   chan struct{}
}

func (m *dmutex) init() { m.once.Do(func() { m.ch = make(chan struct{}, 1) }) }
func (m *dmutex) Lock() { m.init(); m.ch <- struct{}{} }
func (m *dmutex) Unlock() {
	m.init()
	select {
	case <-m.ch:
	default:
		panic("sync: unlock of unlocked mutex")
	}
}
`

const csmapRangeSrc = `package csmap

import (
	"fmt"
	"hash/fnv"
	"sort"
)

// VerifSalt selects the (deterministic) iteration order of Range in the simulation build.
var VerifSalt uint64

func (m *CsMap[K, V]) Range(f func(key K, value V) (stop bool)) {
	type kv struct {
		k K
		v V
		h uint64
		s string
	}
	var all []kv
	for i := range m.shards {
		shard := m.shards[i]
		shard.RLock()
		shard.items.Iter(func(k K, v V) (stop bool) {
			s := fmt.Sprint(k)
			h := fnv.New64a()
			fmt.Fprintf(h, "%d|%s", VerifSalt, s)
			all = append(all, kv{k, v, h.Sum64(), s})
			return false
		})
		shard.RUnlock()
	}
	sort.Slice(all, func(i, j int) bool {
		if all[i].h != all[j].h {
			return all[i].h < all[j].h
		}
		return all[i].s < all[j].s
	})
	for _, t := range all {
		if f(t.k, t.v) {
			return
		}
	}
}
`

func thirdParty(modcache, out string) {
	_ = os.RemoveAll(out)
	gsrc := filepath.Join(modcache, "github.com/couchbase/gocbcore/v10@v10.5.2")
	esrc := filepath.Join(modcache, "github.com/asaskevich/!event!bus@v0.0.0-20200907212545-49d423059eef")
	gdst := filepath.Join(out, "gocbcore")
	edst := filepath.Join(out, "EventBus")
	copyTree(gsrc, gdst)
	copyTree(esrc, edst)

	// gocbcore: memd dial hook
	patchFile(filepath.Join(gdst, "memdconn.go"),
		[2]string{
			"func dialMemdConn(ctx context.Context, address string, tlsConfig *tls.Config, deadline time.Time, bufSize uint) (memdConn, error) {\n",
			`// VerifDial is a simulation hook: when set, every memcached connection is made through it.
var VerifDial func(ctx context.Context, address string) (io.ReadWriteCloser, string, error)

func dialMemdConn(ctx context.Context, address string, tlsConfig *tls.Config, deadline time.Time, bufSize uint) (memdConn, error) {
	if VerifDial != nil {
		rwc, local, err := VerifDial(ctx, address)
		if err != nil {
			return nil, err
		}
		if bufSize == 0 {
			bufSize = defaultReaderBufSize
		}
		c := &wrappedReadWriteCloser{
			Reader: acquireReadBuf(rwc, int(bufSize)),
			Writer: rwc,
			Closer: rwc,
		}
		return &memdConnWrap{
			conn:       memd.NewConn(c),
			baseConn:   c,
			localAddr:  local,
			remoteAddr: address,
			bufSize:    int(bufSize),
		}, nil
	}
`})
	// gocbcore: mgmt HTTP dial hook
	patchFile(filepath.Join(gdst, "httpcomponent.go"),
		[2]string{
			"\t\tDial: func(network, addr string) (net.Conn, error) {\n\t\t\treturn httpDialer.Dial(network, addr)\n",
			"\t\tDial: func(network, addr string) (net.Conn, error) {\n\t\t\tif VerifHTTPDial != nil {\n\t\t\t\treturn VerifHTTPDial(network, addr)\n\t\t\t}\n\t\t\treturn httpDialer.Dial(network, addr)\n",
		})
	if err := os.WriteFile(filepath.Join(gdst, "verif_hooks.go"), []byte(`package gocbcore

import "net"

// VerifHTTPDial is a simulation hook: when set, mgmt HTTP connections are made through it.
var VerifHTTPDial func(network, addr string) (net.Conn, error)
`), 0o644); err != nil {
		die("%v", err)
	}

	// EventBus: durable mutexes
	eb := filepath.Join(edst, "event_bus.go")
	b, err := os.ReadFile(eb)
	if err != nil {
		die("%v", err)
	}
	s := string(b)
	if n := strings.Count(s, "sync.Mutex"); n != 7 {
		die("EventBus: expected 7 sync.Mutex occurrences, found %d", n)
	}
	s = strings.ReplaceAll(s, "sync.Mutex{}", "dmutex{}")
	s = strings.ReplaceAll(s, "sync.Mutex", "dmutex")
	s += durableMutexSrc
	if err := os.WriteFile(eb, []byte(s), 0o644); err != nil {
		die("%v", err)
	}
	// concurrent-swiss-map: Range hands items to the callback through per-shard producer goroutines,
	// so its order depends on goroutine scheduling. In the simulation build it iterates a snapshot in
	// an order that is a pure function of (keys, VerifSalt); the salt is drawn from the run's tape.
	csrc := filepath.Join(modcache, "github.com/mhmtszr/concurrent-swiss-map@v1.0.8")
	cdst := filepath.Join(out, "csmap")
	copyTree(csrc, cdst)
	patchFile(filepath.Join(cdst, "concurrent_swiss_map.go"),
		[2]string{
			"func (m *CsMap[K, V]) Range(f func(key K, value V) (stop bool)) {\n",
			"func (m *CsMap[K, V]) rangeOriginal(f func(key K, value V) (stop bool)) {\n",
		})
	if err := os.WriteFile(filepath.Join(cdst, "verif_range.go"), []byte(csmapRangeSrc), 0o644); err != nil {
		die("%v", err)
	}
	if err := os.WriteFile(filepath.Join(edst, "go.mod"), []byte("module github.com/asaskevich/EventBus\n\ngo 1.20\n"), 0o644); err != nil {
		die("%v", err)
	}
	fmt.Println("thirdparty: ok")
}

// ---------------------------------------------------------------------------------------------

var (
	reSyncMutex  = regexp.MustCompile(`\bsync\.(RW)?Mutex\b`)
	reSyncOnce   = regexp.MustCompile(`\bsync\.Once\b`)
	reSyncOther  = regexp.MustCompile(`\bsync\.[A-Za-z]`)
	reImportSync = regexp.MustCompile(`(?m)^(\s*)"sync"\s*$`)
	reOSFile     = regexp.MustCompile(`\bos\.(WriteFile|ReadFile|Remove)\b`)
)

const modPath = "github.com/Trendyol/go-dcp"

// addImport inserts an import line right after the first `import (`.
func addImport(src, line string) string {
	i := strings.Index(src, "import (")
	if i < 0 {
		die("no import block")
	}
	i += len("import (")
	return src[:i] + "\n\t" + line + src[i:]
}

func rewriteGo(path, src string) (string, bool) {
	changed := false
	if reSyncMutex.MatchString(src) || reSyncOnce.MatchString(src) {
		src = reSyncMutex.ReplaceAllString(src, "vsync.${1}Mutex")
		src = reSyncOnce.ReplaceAllString(src, "vsync.Once")
		src = addImport(src, `vsync "`+modPath+`/vsync"`)
		if !reSyncOther.MatchString(strings.ReplaceAll(src, "vsync.", "")) {
			src = reImportSync.ReplaceAllString(src, "")
		}
		changed = true
	}
	if strings.HasSuffix(path, "metadata/file_metadata.go") && reOSFile.MatchString(src) {
		src = reOSFile.ReplaceAllString(src, "vfs.$1")
		src = addImport(src, `vfs "`+modPath+`/vsync/vfs"`)
		if regexp.MustCompile(`(?m)^\s*"os"\s*$`).MatchString(src) && !regexp.MustCompile(`\bos\.`).MatchString(src) {
			src += "\nvar _ = os.ErrNotExist // the rewrite removed the file's last use of package os\n"
		}
		changed = true
	}
	// pre-emption points: at a few places where go-dcp has no seam of its own (no lock, no I/O) between two
	// statements whose order relative to another goroutine matters, a call that parks the goroutine until the
	// simulator's scheduler resumes it (a no-op unless the run armed that site). An anchor that is not found
	// (the code changed) is skipped.
	for _, y := range yieldSites {
		if !strings.HasSuffix(path, y.file) {
			continue
		}
		i := strings.Index(src, y.anchor)
		if i < 0 || strings.Count(src, y.anchor) != 1 {
			continue
		}
		j := i + len(y.anchor)
		src = src[:j] + "\n\tvsync.Yield(\"" + y.site + "\")" + src[j:]
		if !strings.Contains(src, modPath+`/vsync"`) {
			src = addImport(src, `vsync "`+modPath+`/vsync"`)
		}
		changed = true
	}
	if changed {
		if _, err := parser.ParseFile(token.NewFileSet(), path, src, parser.AllErrors); err != nil {
			die("rewritten %s does not parse: %v", path, err)
		}
	}
	return src, changed
}

var yieldSites = []struct{ file, anchor, site string }{
	{"couchbase/async_op.go", "func (m *asyncOp) Wait(op gocbcore.PendingOp, err error) error {", "asyncop.wait"},
	{"stream/stream.go", "	case <-s.finishStreamWithCloseCh:", "stream.wait.close-token"},
	{"stream/stream.go", "	case <-s.finishStreamWithEndEventCh:", "stream.wait.end-token"},
}

func overlay(repo, verif, out string) {
	repo, _ = filepath.Abs(repo)
	verif, _ = filepath.Abs(verif)
	out, _ = filepath.Abs(out)
	_ = os.RemoveAll(out)
	if err := os.MkdirAll(out, 0o755); err != nil {
		die("%v", err)
	}
	replace := map[string]string{}

	// 1. rewritten copies of go-dcp's own sources
	skipDirs := map[string]bool{"example": true, "test": true, ".git": true, "scripts": true, "vsync": true}
	err := filepath.WalkDir(repo, func(p string, d fs.DirEntry, err error) error {
		if err != nil {
			return err
		}
		rel, _ := filepath.Rel(repo, p)
		if d.IsDir() {
			if skipDirs[strings.Split(rel, string(filepath.Separator))[0]] {
				return filepath.SkipDir
			}
			return nil
		}
		if !strings.HasSuffix(p, ".go") || strings.HasSuffix(p, "_test.go") {
			return nil
		}
		b, err := os.ReadFile(p)
		if err != nil {
			return err
		}
		ns, changed := rewriteGo(rel, string(b))
		if !changed {
			return nil
		}
		dst := filepath.Join(out, "rewritten", rel)
		if err := os.MkdirAll(filepath.Dir(dst), 0o755); err != nil {
			return err
		}
		if err := os.WriteFile(dst, []byte(ns), 0o644); err != nil {
			return err
		}
		replace[p] = dst
		return nil
	})
	if err != nil {
		die("walk %s: %v", repo, err)
	}

	// 2. shims and helper packages: <verif>/overlay/<dir>/<file> -> <repo>/<dir>/<file> ("root" = module root)
	ov := filepath.Join(verif, "overlay")
	err = filepath.WalkDir(ov, func(p string, d fs.DirEntry, err error) error {
		if err != nil {
			return err
		}
		if d.IsDir() || !strings.HasSuffix(p, ".go") {
			return nil
		}
		rel, _ := filepath.Rel(ov, p)
		parts := strings.Split(rel, string(filepath.Separator))
		if parts[0] == "root" {
			parts = parts[1:]
		}
		replace[filepath.Join(append([]string{repo}, parts...)...)] = p
		return nil
	})
	if err != nil {
		die("walk %s: %v", ov, err)
	}

	// 3. the Go runtime's two coins the simulator has to own: which ready case a select takes, and the
	// seeds / iteration offsets of maps. Both are moved from per-thread random state to one process-wide
	// counter stream (verifRandState) that the worker seeds from VERIF_SEED; the start-up entropy is fixed
	// so that string hashing is the same in every process.
	goroot := os.Getenv("VERIF_GOROOT")
	if goroot != "" {
		patchRuntime(goroot, out, replace)
	}

	keys := make([]string, 0, len(replace))
	for k := range replace {
		keys = append(keys, k)
	}
	sort.Strings(keys)
	b, _ := json.MarshalIndent(map[string]any{"Replace": replace}, "", " ")
	if err := os.WriteFile(filepath.Join(out, "overlay.json"), b, 0o644); err != nil {
		die("%v", err)
	}
	for _, k := range keys {
		fmt.Printf("overlay: %s -> %s\n", k, replace[k])
	}
}

func patchRuntime(goroot, out string, replace map[string]string) {
	sub := func(file string, edits [][2]string) {
		src := filepath.Join(goroot, "src", filepath.FromSlash(file))
		b, err := os.ReadFile(src)
		if err != nil {
			die("runtime patch: %v", err)
		}
		t := string(b)
		for _, e := range edits {
			if strings.HasPrefix(e[0], "ALL:") {
				if !strings.Contains(t, e[0][4:]) {
					die("runtime patch: %s: anchor %q not found", file, e[0])
				}
				t = strings.ReplaceAll(t, e[0][4:], e[1])
				continue
			}
			if strings.Count(t, e[0]) != 1 {
				die("runtime patch: %s: anchor %q found %d times", file, e[0], strings.Count(t, e[0]))
			}
			t = strings.Replace(t, e[0], e[1], 1)
		}
		if _, err := parser.ParseFile(token.NewFileSet(), src, t, parser.AllErrors); err != nil {
			die("runtime patch: %s does not parse: %v", file, err)
		}
		dst := filepath.Join(out, "goroot", filepath.FromSlash(file))
		if err := os.MkdirAll(filepath.Dir(dst), 0o755); err != nil {
			die("%v", err)
		}
		if err := os.WriteFile(dst, []byte(t), 0o644); err != nil {
			die("%v", err)
		}
		replace[src] = dst
	}
	sub("runtime/rand.go", [][2]string{
		{"	\"internal/goarch\"\n", "	\"internal/goarch\"\n	\"internal/runtime/atomic\"\n"},
		{"	globalRand.state.Init(*seed)\n", "	for i := range seed {\n		seed[i] = byte(i*7 + 1) // verif: fixed start-up entropy\n	}\n	globalRand.state.Init(*seed)\n"},
		{"func maps_rand() uint64 {\n	return rand()\n}", `func maps_rand() uint64 {
	return verifrand()
}

// verifRandState is the simulator-owned stream behind select's case order and map seeds.
var verifRandState uint64

// verifRandOutside serves goroutines that are not in the synctest bubble (test framework, finalizers,
// signal loop): when they run depends on the wall clock, so they must not draw from the bubble's stream.
var verifRandOutside uint64

func verifrand() uint64 {
	p := &verifRandState
	if getg().bubble == nil {
		p = &verifRandOutside
	}
	s := atomic.Xadd64(p, 0x5851f42d4c957f2d)
	hi, lo := math.Mul64(s|1, s^0xe7037ed1a0b428db)
	return hi ^ lo
}`},
	})
	// map hash seeds are constant: how many maps a run creates depends on sync.Pool hits, hence on when the
	// collector ran, hence on the wall clock; the number of map iterations and selects does not.
	sub("internal/runtime/maps/map.go", [][2]string{
		{"ALL:m.seed = uintptr(rand())", "m.seed = uintptr(0x9e3779b97f4a7c15 & (1<<(goarch.PtrSize*8-1) - 1))"},
	})
	// no wall-clock time slice: sysmon asking a goroutine that "ran for 10 ms" (because the machine was busy)
	// to yield moves it behind its peers, which is a scheduling decision taken by the load of the host
	sub("runtime/proc.go", [][2]string{
		{"const forcePreemptNS = 10 * 1000 * 1000 // 10ms", "const forcePreemptNS = 1 << 60 // verif: never"},
	})
	// synctest orders fake timers that fire at the same instant by a per-timer random value (cheaprand): owned by
	// the seed like the other coins (found late: a save's context deadline and gocbcore's per-request timers share
	// one instant, and which of them runs first decides the error a timed-out save reports)
	sub("runtime/time.go", [][2]string{
		{"t.rand = cheaprand()", "t.rand = uint32(verifrand()) // verif"},
	})
	sub("runtime/select.go", [][2]string{
		{"j := cheaprandn(uint32(norder + 1))", "j := uint32((uint64(uint32(verifrand())) * uint64(uint32(norder+1))) >> 32) // verif"},
	})
}
