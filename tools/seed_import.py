#!/usr/bin/env python3
"""Import sub-agent seeded bugs from /tmp/seeded_out into /verif/seeded/<id>/ (patch.diff, demo files, meta.json)."""
import json, os, shutil, sys
SRC='/tmp/seeded_out'
specs = {
 'C01a': dict(prop='C01', dir='C01/a', demos={'seeded_demo_a_test.go':'stream/seeded_demo_a_test.go'}, cmd="go test -mod=mod -vet=off -count=1 -run 'TestSeededDemoA' ./stream/",
   needs="one shared Offset per snapshot (aliasing): event N acknowledged, event N+1 of the same snapshot delivered but unacknowledged, a checkpoint write in that window, then a crash"),
 'C01b': dict(prop='C01', dir='C01/b', demos={'seeded_demo_b_test.go':'stream/seeded_demo_b_test.go'}, cmd="go test -mod=mod -vet=off -count=1 -run 'TestSeededDemoB' ./stream/",
   needs="autoReset=latest, a partial set of checkpoint documents (crash part-way through the first multi-vBucket save), restart while the checkpointed vBucket has unsettled events"),
 'C03a': dict(prop='C03', dir='C03/a', demos={'seeded_demo_a_test.go':'couchbase/seeded_demo_a_test.go'}, cmd="go test -mod=mod -vet=off -count=1 ./couchbase/ -run 'TestSeededDemoA'",
   needs="a server-requested rollback on open, then a replayed snapshot whose marker start equals the position already reached: the event at that position is delivered twice"),
 'C03b': dict(prop='C03', dir='C03/b', demos={'seeded_demo_b_test.go':'stream/seeded_demo_b_test.go'}, cmd="go test -mod=mod -vet=off -count=1 ./stream/ -run 'TestSeededDemoB'",
   needs="snapshot marker updated in place: a consumer still holding un-acked events when the same vBucket's next snapshot marker arrives"),
 'C04a': dict(prop='C04', dir='C04/a', demos={'seeded_a_demo_test.go':'stream/seeded_a_demo_test.go'}, cmd="go test -mod=mod -vet=off -count=1 ./stream -run 'TestSeededA'",
   needs="events s1<s2 both un-acked, ack s2, a successful save, then the late ack of s1: the position drops to s1"),
 'C04b': dict(prop='C04', dir='C04/b', demos={'seeded_b_demo_test.go':'stream/seeded_b_demo_test.go'}, cmd="go test -mod=mod -vet=off -count=1 ./stream -run 'TestSeededB'",
   needs="a rebalance that shrinks the range so that an un-acked event's vBucket is exactly the new upper bound + 1, then its late ack"),
 'C05a': dict(prop='C05', dir='C05/a', patch='patch_adapted.diff', demos={'seeded_a_demo_test.go':'stream/seeded_a_demo_test.go'}, cmd="go test -mod=mod -vet=off -count=1 -run 'TestSeededA' ./stream/",
   needs="a save that fails with a timeout specifically (not a rejection), and no further ack on that vBucket before the next saves",
   adapted="the sub-agent's patch was written against the tree before the fix commit ad1ce13 (which rewrote checkpoint.Save); patch.diff is the same change re-expressed on the fixed tree (a timed-out save does not re-mark the dumped vBuckets); patch_original.diff is the sub-agent's own"),
 'C05b': dict(prop='C05', dir='C05/b', demos={'seeded_b_demo_test.go':'stream/seeded_b_demo_test.go'}, cmd="go test -mod=mod -vet=off -count=1 -run 'TestSeededB' ./stream/",
   needs="a seqno-advanced / system event on vBucket V, then before any successful save an ack on the same V, and no other vBucket newly dirtied: every save says 'no need to save'"),
 'C06a': dict(prop='C06', dir='C06/a', demos={'seeded_c06a_demo_test.go':'stream/seeded_c06a_demo_test.go'}, cmd="go test -mod=mod -vet=off -count=1 -run 'TestSeededC06a' ./stream/",
   needs="snapshot marker object reused in place: an event of snapshot N acknowledged only after marker N+1 was processed, then a save"),
 'C06b': dict(prop='C06', dir='C06/b', demos={'seeded_c06b_demo_test.go':'couchbase/seeded_c06b_demo_test.go'}, cmd="go test -mod=mod -vet=off -count=1 -run 'TestSeededC06b' ./couchbase/",
   needs="a server that emits an item outside its announced snapshot (lost marker / straggler): the range check can no longer fire"),
 'C13a': dict(prop='C13', dir='C13/a', patch='patch_adapted.diff', demos={'seeded_c13a_demo_test.go':'seeded_c13a_demo_test.go'}, cmd="go test -mod=mod -vet=off -count=1 -run TestSeededC13a .",
   needs="a slow save in flight, another position acknowledged meanwhile, and Close() arriving before that save returns: the final save is silently skipped",
   adapted="the sub-agent's patch was written against the tree before the fix commit ad1ce13; patch.diff is the same change (TryLock, skip when a save is in flight) on the fixed tree; patch_original.diff is the sub-agent's own"),
 'C13b': dict(prop='C13', dir='C13/b', demos={'seeded_c13b_demo_test.go':'couchbase/seeded_c13b_demo_test.go','seeded_c13b_e2e_demo_test.go':'seeded_c13b_e2e_demo_test.go'}, cmd="go test -mod=mod -vet=off -count=1 -run TestSeededC13b ./couchbase/ .",
   needs="health check enabled, a ping of the current round has failed, Close() arrives during the retry wait: Stop() blocks while the round keeps sleeping and pinging"),
}
only = sys.argv[1:] 
for sid, sp in specs.items():
    if only and sid not in only: continue
    src=os.path.join(SRC, sp['dir'])
    if not os.path.isdir(src): continue
    dst=os.path.join('/verif/seeded', sid); os.makedirs(dst, exist_ok=True)
    pf=sp.get('patch','patch.diff')
    shutil.copy(os.path.join(src,pf), os.path.join(dst,'patch.diff'))
    if pf!='patch.diff': shutil.copy(os.path.join(src,'patch.diff'), os.path.join(dst,'patch_original.diff'))
    for f in sp['demos']: shutil.copy(os.path.join(src,f), os.path.join(dst,f))
    if os.path.exists(os.path.join(src,'meta.md')): shutil.copy(os.path.join(src,'meta.md'), os.path.join(dst,'agent_meta.md'))
    mp=os.path.join(dst,'meta.json')
    meta=json.load(open(mp)) if os.path.exists(mp) else {}
    meta.update({'id':sid,'property':sp['prop'],'breaks':sp['prop'],'needs_to_manifest':sp['needs'],'demo_files':sp['demos'],'demo_cmd':sp['cmd']})
    if 'adapted' in sp: meta['adapted']=sp['adapted']
    json.dump(meta,open(mp,'w'),indent=1)
    print('imported',sid)
