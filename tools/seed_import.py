#!/usr/bin/env python3
"""Import sub-agent seeded bugs from /tmp/seeded_out into /verif/seeded/<id>/ (patch.diff, demo files, meta.json)."""
import json, os, shutil, sys
SRC='/tmp/seeded_out'
specs = {
 'C01a': dict(prop='C01', dir='C01/a', demos={'seeded_demo_a_test.go':'stream/seeded_demo_a_test.go'}, cmd="go test -mod=mod -vet=off -count=1 -run 'TestSeededDemoA' ./stream/",
   needs="one shared Offset per snapshot (aliasing): event N acknowledged, event N+1 of the same snapshot delivered but unacknowledged, a checkpoint write in that window, then a crash"),
 'C01b': dict(prop='C01', dir='C01/b', demos={'seeded_demo_b_test.go':'stream/seeded_demo_b_test.go'}, cmd="go test -mod=mod -vet=off -count=1 -run 'TestSeededDemoB' ./stream/",
   needs="autoReset=latest, a partial set of checkpoint documents (crash part-way through the first multi-vBucket save), restart while the checkpointed vBucket has unsettled events"),
 'C03a': dict(prop='C03', dir='C03/a', demos={'seeded_demo_a_test.go':'couchbase/seeded_demo_a_test.go'}, cmd="go test -mod=mod -vet=off -count=1 ./couchbase/ -run 'TestSeededDemoA'",
   needs="a server-requested rollback on open, then a replayed snapshot whose marker start equals the position already reached: the event at that position is delivered twice"),
 'C03b': dict(prop='C03', dir='C03/b', demos={'seeded_demo_b_test.go':'stream/seeded_demo_b_test.go'}, cmd="go test -mod=mod -vet=off -count=1 ./stream/ -run 'TestSeededDemoB'",
   needs="snapshot marker updated in place: a consumer still holding un-acked events when the same vBucket's next snapshot marker arrives"),
 'C04a': dict(prop='C04', dir='C04/a', demos={'seeded_a_demo_test.go':'stream/seeded_a_demo_test.go'}, cmd="go test -mod=mod -vet=off -count=1 ./stream -run 'TestSeededA'",
   needs="events s1<s2 both un-acked, ack s2, a successful save, then the late ack of s1: the position drops to s1"),
 'C04b': dict(prop='C04', dir='C04/b', demos={'seeded_b_demo_test.go':'stream/seeded_b_demo_test.go'}, cmd="go test -mod=mod -vet=off -count=1 ./stream -run 'TestSeededB'",
   needs="a rebalance that shrinks the range so that an un-acked event's vBucket is exactly the new upper bound + 1, then its late ack"),
 'C05a': dict(prop='C05', dir='C05/a', patch='patch_adapted.diff', demos={'seeded_a_demo_test.go':'stream/seeded_a_demo_test.go'}, cmd="go test -mod=mod -vet=off -count=1 -run 'TestSeededA' ./stream/",
   needs="a save that fails with a timeout specifically (not a rejection), and no further ack on that vBucket before the next saves",
   adapted="the sub-agent's patch was written against the tree before the fix commit ad1ce13 (which rewrote checkpoint.Save); patch.diff is the same change re-expressed on the fixed tree (a timed-out save does not re-mark the dumped vBuckets); patch_original.diff is the sub-agent's own"),
 'C05b': dict(prop='C05', dir='C05/b', demos={'seeded_b_demo_test.go':'stream/seeded_b_demo_test.go'}, cmd="go test -mod=mod -vet=off -count=1 -run 'TestSeededB' ./stream/",
   needs="a seqno-advanced / system event on vBucket V, then before any successful save an ack on the same V, and no other vBucket newly dirtied: every save says 'no need to save'"),
 'C06a': dict(prop='C06', dir='C06/a', demos={'seeded_c06a_demo_test.go':'stream/seeded_c06a_demo_test.go'}, cmd="go test -mod=mod -vet=off -count=1 -run 'TestSeededC06a' ./stream/",
   needs="snapshot marker object reused in place: an event of snapshot N acknowledged only after marker N+1 was processed, then a save"),
 'C06b': dict(prop='C06', dir='C06/b', demos={'seeded_c06b_demo_test.go':'couchbase/seeded_c06b_demo_test.go'}, cmd="go test -mod=mod -vet=off -count=1 -run 'TestSeededC06b' ./couchbase/",
   needs="a server that emits an item outside its announced snapshot (lost marker / straggler): the range check can no longer fire"),
 'C13a': dict(prop='C13', dir='C13/a', patch='patch_adapted.diff', demos={'seeded_c13a_demo_test.go':'seeded_c13a_demo_test.go'}, cmd="go test -mod=mod -vet=off -count=1 -run TestSeededC13a .",
   needs="a slow save in flight, another position acknowledged meanwhile, and Close() arriving before that save returns: the final save is silently skipped",
   adapted="the sub-agent's patch was written against the tree before the fix commit ad1ce13; patch.diff is the same change (TryLock, skip when a save is in flight) on the fixed tree; patch_original.diff is the sub-agent's own"),
 'C13b': dict(prop='C13', dir='C13/b', demos={'seeded_c13b_demo_test.go':'couchbase/seeded_c13b_demo_test.go','seeded_c13b_e2e_demo_test.go':'seeded_c13b_e2e_demo_test.go'}, cmd="go test -mod=mod -vet=off -count=1 -run TestSeededC13b ./couchbase/ .",
   needs="health check enabled, a ping of the current round has failed, Close() arrives during the retry wait: Stop() blocks while the round keeps sleeping and pinging"),
 'C02a': dict(prop='C02', dir='C02/a', demos={'seeded_c02a_demo_test.go':'stream/seeded_c02a_demo_test.go'}, cmd="go test -mod=mod -vet=off -count=1 -run TestSeededC02a ./stream/",
   needs="no checkpoint for any assigned vBucket, auto-reset 'latest', and a vBucket whose failover log has two or more entries: the request carries the oldest branch's vbUUID"),
 'C02b': dict(prop='C02', dir='C02/b', demos={'seeded_c02b_demo_test.go':'seeded_c02b_demo_test.go'}, cmd="go test -mod=mod -vet=off -count=1 -run TestSeededC02b .",
   needs="a custom metadata backend installed via SetMetadata plus metadata.readOnly=true plus a dirty offset that gets saved: the read-only wrapper is no longer applied to custom backends"),
 'C07a': dict(prop='C07', dir='C07/a', demos={'seeded_c07a_demo_test.go':'couchbase/seeded_c07a_demo_test.go'}, cmd="go test -mod=mod -vet=off -count=1 -run TestSeededC07A ./couchbase/",
   needs="rollback mitigation on, a rollback on stream open (catch-up), the replayed history lacks the exact failed seqno, and the first later event is not yet persisted on every copy: it skips the gate"),
 'C07b': dict(prop='C07', dir='C07/b', demos={'seeded_c07b_demo_test.go':'couchbase/seeded_c07b_demo_test.go'}, cmd="go test -mod=mod -vet=off -count=1 -run TestSeededC07B ./couchbase/",
   needs="one copy switches vbUUID at exactly its last recorded persisted seqno while another copy lags and then advances under the old vbUUID; an event lies between the old and the new threshold"),
 'C08a': dict(prop='C08', dir='C08/a', demos={'seeded_c08a_demo_test.go':'couchbase/seeded_c08a_demo_test.go'}, cmd="go test -mod=mod -vet=off -count=1 -run 'TestSeededC08a' ./couchbase/",
   needs="a failover log with at least two entries and a rollback point strictly below the newest entry's start seqno: later offsets carry the old branch's vbUUID"),
 'C08b': dict(prop='C08', dir='C08/b', demos={'seeded_c08b_demo_test.go':'stream/seeded_c08b_demo_test.go'}, cmd="go test -mod=mod -vet=off -count=1 -run 'TestSeededC08b' ./stream/",
   needs="a rollback onto a different vbUUID, a seqno-advanced event with R < seq < F in the replay, a stop before any event above F is acknowledged, and an Ack on another vBucket so the save happens: the stored position drops below F"),
 'C10a': dict(prop='C10', dir='C10/a', demos={'seeded_c10a_demo_test.go':'couchbase/seeded_c10a_demo_test.go'}, cmd="go test -mod=mod -vet=off -count=1 -run TestSeededC10a ./couchbase/",
   needs="two members' monitor rounds overlapping after a membership change (CAS mismatch on the index rewrite, or a transient updateIndex error): the loser's retry sees 'cluster not changed' and never announces"),
 'C10b': dict(prop='C10', dir='C10/b', demos={'seeded_c10b_demo_test.go':'servicediscovery/seeded_c10b_demo_test.go'}, cmd="go test -mod=mod -vet=off -count=1 -run TestSeededC10b ./servicediscovery/",
   needs="a single transient failure of a leader-to-follower Rebalance RPC while pings keep succeeding: the follower is dropped and a member number is claimed twice"),
 'C11a': dict(prop='C11', dir='C11/a', demos={'seeded_c11_a_test.go':'stream/seeded_c11_a_test.go'}, cmd="go test -mod=mod -vet=off -count=1 -run TestSeededC11A_NotificationWhileReopening ./stream/",
   needs="a notification arriving while the stream is being reopened (timer already fired): Reset re-arms the fired timer, a stray reopen without a close follows (unlock of unlocked mutex)"),
 'C11b': dict(prop='C11', dir='C11/b', demos={'seeded_c11_b_test.go':'stream/seeded_c11_b_test.go'}, cmd="go test -mod=mod -vet=off -count=1 -run TestSeededC11B_BurstKeepsGroupSizeButChangesMemberNumber ./stream/",
   needs="a membership sequence whose net effect keeps the group size but changes this member's number (2/3 -> 1/3): the reopen lands on the old range"),
 'C12a': dict(prop='C12', dir='C12/a', demos={'seeded_c12a_demo_test.go':'stream/seeded_c12a_demo_test.go'}, cmd="go test -mod=mod -vet=off -count=1 -run TestSeededC12a ./stream/",
   needs="vBucket X ends transiently and, while its reopen is in flight, all other vBuckets end for good: the client stops although X is being reopened; the active-stream count dips"),
 'C12b': dict(prop='C12', dir='C12/b', demos={'seeded_c12b_demo_test.go':'stream/seeded_c12b_demo_test.go'}, cmd="go test -mod=mod -vet=off -count=1 -run TestSeededC12b ./stream/",
   needs="a transient end on an already open vBucket while another vBucket's OpenStream is still in flight during Open(): the reopen is dropped silently"),
 'C14a': dict(prop='C14', dir='C14/a', demos={'seeded_c14a_demo_test.go':'stream/seeded_c14a_demo_test.go'}, cmd="go test -mod=mod -vet=off -count=1 -run 'TestSeededC14a' ./stream/",
   needs="a reserved-prefix event arriving between a consumer Ack and the next save: it is flagged for saving, so the set of checkpoint documents written grows one hop per save"),
 'C14b': dict(prop='C14', dir='C14/b', demos={'seeded_c14b_demo_test.go':'couchbase/seeded_c14b_demo_test.go'}, cmd="go test -mod=mod -vet=off -count=1 -run 'TestSeededC14b' ./couchbase/",
   needs="a group name starting with a dot: it is no longer rejected"),
 'C15a': dict(prop='C15', dir='C15/a', demos={'seeded_demo_a_test.go':'stream/seeded_demo_a_test.go'}, cmd="go test -mod=mod -vet=off -count=1 -run '^TestSeededDemoA' ./stream/",
   needs="a checkpoint taken mid-snapshot and a flush that leaves the high seqno with snapshotStart <= high < checkpoint seqno: start-up is not refused and the stream is requested beyond the high seqno"),
 'C15b': dict(prop='C15', dir='C15/b', demos={'seeded_demo_b_test.go':'stream/seeded_demo_b_test.go'}, cmd="go test -mod=mod -vet=off -count=1 -run '^TestSeededDemoB' ./stream/",
   needs="a failing stream open that completes before some successful open: the later success overwrites the error and Open() proceeds with part of the assignment unopened"),
 'C16a': dict(prop='C16', dir='C16/a', demos={'seeded_demo_a_test.go':'metric/seeded_demo_a_test.go'}, cmd="go test -mod=mod -vet=off -count=1 ./metric/ -run TestSeededA",
   needs="a mixed high-seqno vector: one vBucket whose high seqno is below its tracked position while another genuinely lags: total lag is no longer the sum of the per-vBucket lags"),
 'C16b': dict(prop='C16', dir='C16/b', demos={'seeded_demo_b_test.go':'stream/seeded_demo_b_test.go'}, cmd="go test -mod=mod -vet=off -count=1 ./stream/ -run TestSeededB",
   needs="a rebalance where the group keeps its size but this member gets a different number: the exported member number and vBucket range go stale"),
 'C19a': dict(prop='C19', dir='C19/a', demos={'seeded_demo_a_test.go':'couchbase/seeded_demo_a_test.go'}, cmd="go test -mod=mod -vet=off -count=1 -run TestSeededA ./couchbase/",
   needs="Stop() arriving while a round is in progress and at least one ping of that round has already failed: the remaining pings go out back to back and the checker panics during shutdown"),
 'C19b': dict(prop='C19', dir='C19/b', demos={'seeded_demo_b_test.go':'couchbase/seeded_demo_b_test.go'}, cmd="go test -mod=mod -vet=off -count=1 -run TestSeededB ./couchbase/",
   needs="a sequence of rounds on the same instance where earlier rounds had failures and recovered: the failure counter is never reset and a later round panics before five consecutive failures"),
 'C20a': dict(prop='C20', dir='C20/a', demos={'seeded_demo_a_test.go':'couchbase/seeded_demo_a_test.go','seeded_fakekv_test.go':'couchbase/seeded_fakekv_test.go'}, cmd="go test -mod=mod -vet=off -count=1 -run TestSeededA ./couchbase/",
   needs="the server never replies to the checkpoint xattr lookup while the connection stays up: the read has no deadline any more and hangs"),
 'C20b': dict(prop='C20', dir='C20/b', demos={'seeded_demo_b_test.go':'couchbase/seeded_demo_b_test.go','seeded_fakekv_test.go':'couchbase/seeded_fakekv_test.go'}, cmd="go test -mod=mod -vet=off -count=1 -run TestSeededB ./couchbase/",
   needs="a partial ping failure reported before the deadline (mgmt answers an error while KV is fine, or the reverse): Ping reports success"),
}
only = sys.argv[1:] 
for sid, sp in specs.items():
    if only and sid not in only: continue
    src=os.path.join(SRC, sp['dir'])
    if not os.path.isdir(src): continue
    dst=os.path.join('/verif/seeded', sid); os.makedirs(dst, exist_ok=True)
    pf=sp.get('patch','patch.diff')
    shutil.copy(os.path.join(src,pf), os.path.join(dst,'patch.diff'))
    if pf!='patch.diff': shutil.copy(os.path.join(src,'patch.diff'), os.path.join(dst,'patch_original.diff'))
    for f in sp['demos']: shutil.copy(os.path.join(src,f), os.path.join(dst,f))
    if os.path.exists(os.path.join(src,'meta.md')): shutil.copy(os.path.join(src,'meta.md'), os.path.join(dst,'agent_meta.md'))
    mp=os.path.join(dst,'meta.json')
    meta=json.load(open(mp)) if os.path.exists(mp) else {}
    meta.update({'id':sid,'property':sp['prop'],'breaks':sp['prop'],'needs_to_manifest':sp['needs'],'demo_files':sp['demos'],'demo_cmd':sp['cmd']})
    if 'adapted' in sp: meta['adapted']=sp['adapted']
    json.dump(meta,open(mp,'w'),indent=1)
    print('imported',sid)
