package oracle

import (
	"bytes"
	"fmt"
	"strconv"

	"verif/journal"
)

// C03 — per-vBucket delivery is complete, ordered, duplicate-free and faithful.
//
// Reference model: per (member, vBucket) a FIFO of the document events the node emitted on the
// currently open stream, minus the documented filters. Every ConsumeEvent must be the head of that
// FIFO, field for field; when the run ends normally with the stream still open the FIFO must be empty.
func init() { checkers["C03"] = checkC03 }

type emitted struct {
	n   int
	ev  *journal.Ev
	sid string
}

func expectedCollName(cfg *Cfg, cid string) string {
	name, ok := cfg.Extra["coll:"+cid]
	if !ok {
		return "_default"
	}
	for _, n := range cfg.CollectionNames {
		if n == name {
			return name
		}
	}
	return "_default"
}

func checkC03(run *Run, res *Result) {
	cfg := &run.Cfg
	type key struct{ m, vb int }
	fifo := map[key][]emitted{}
	tail := map[key][]emitted{} // emitted on a stream the node has ended since
	open := map[key]string{}    // open stream id
	rolled := map[key]uint64{}  // F after a rollback reopen (events <= F are filtered)
	lastStartFail := map[key]uint64{}
	lastEmitStep := map[int]int{} // conn-less: member -> step of last emit, for the multi-connection probe
	closing := map[int]bool{}
	deliveredOff := map[string]*journal.Off{}
	deliveredSt := map[string]int{}
	for i := range run.Evs {
		e := &run.Evs[i]
		k := key{e.M, e.Vb}
		switch e.K {
		case journal.KSReq:
			if e.S2 == "ok" {
				open[k] = e.ID
				fifo[k] = nil
				tail[k] = nil
				if f, ok := lastStartFail[k]; ok {
					rolled[k] = f
					delete(lastStartFail, k)
				} else {
					delete(rolled, k)
				}
			} else if e.S2 == "0x23" && e.Off != nil {
				lastStartFail[k] = e.Off.Seq
			}
		case journal.KCall:
			if e.S == "Close" {
				closing[e.M] = true
			}
		case journal.KCrash:
			closing[e.M] = true
		case journal.KEmit:
			if e.ID != open[k] {
				continue
			}
			if e.S == "end" {
				delete(open, k)
				// events of an ended stream may or may not be delivered (C12/C13) - but what was emitted before the end in
				// the same burst may still arrive, in order, after the node's end event
				tail[k] = fifo[k]
				fifo[k] = nil
				continue
			}
			if !isDocKind(e.S) {
				continue
			}
			res.probe("kind:" + e.S)
			if isInternalKey(e.Key) {
				res.probe("filter:reserved-prefix")
				continue
			}
			if cfg.SkipUntil && int64(uint64(e.I)/1_000_000_000) < cfg.SkipUntilSec {
				res.probe("filter:skipuntil")
				continue
			}
			if f, ok := rolled[k]; ok && e.Seq <= f {
				res.probe("filter:rollback-catchup")
				continue
			}
			if bytes.HasPrefix(e.Key, []byte("_connector:cbg")) || bytes.HasPrefix(e.Key, []byte("_txn")) {
				res.probe("partial-prefix-delivered")
			}
			if st, ok := lastEmitStep[e.M]; ok && st == e.St {
				res.probe("two-emits-one-epoch")
			}
			lastEmitStep[e.M] = e.St
			fifo[k] = append(fifo[k], emitted{n: e.N, ev: e, sid: e.ID})
		case journal.KConn:
			if e.S == "drop" {
				for kk, sid := range open {
					if kk.m == e.M && connOfSid(run, sid) == e.ID { // only the streams of the dropped connection end
						delete(open, kk)
						tail[kk] = fifo[kk]
						fifo[kk] = nil
					}
				}
			}
		case journal.KAck:
			// the event the consumer still holds must keep carrying its own position
			if d, ok := deliveredOff[e.ID]; ok && e.Off != nil && (d.UUID != e.Off.UUID || d.Seq != e.Off.Seq || d.Start != e.Off.Start || d.End != e.Off.End) {
				res.violate("C03", "R5-offset-changed-after-delivery", e.N, fmt.Sprintf("vb=%d seq=%d", e.Vb, e.Seq),
					"member %d vb %d seq %d: the event was delivered with offset %s; when it was acknowledged later the same event carried %s", e.M, e.Vb, e.Seq, d, e.Off)
			}
			if ok := deliveredOff[e.ID] != nil; ok && e.St > deliveredSt[e.ID] {
				res.probe("ack-in-a-later-step-than-delivery")
			}
		case journal.KConsume:
			deliveredOff[e.ID], deliveredSt[e.ID] = e.Off, e.St
			q := fifo[k]
			sig := fmt.Sprintf("vb=%d seq=%d", e.Vb, e.Seq)
			if len(q) == 0 && len(tail[k]) > 0 && open[k] == "" {
				// the stream has ended: accept the rest of what it had emitted, in order (skipping is allowed there)
				t := tail[k]
				found := -1
				for j := range t {
					if t[j].ev.Seq == e.Seq {
						found = j
						break
					}
				}
				if found >= 0 {
					compareFields(res, cfg, t[found].ev, e)
					tail[k] = t[found+1:]
					res.probe("delivered-after-the-node-ended-the-stream")
					continue
				}
			}
			if len(q) == 0 {
				res.violate("C03", "R1-unexpected-event", e.N, sig,
					"member %d vb %d: ConsumeEvent(seq=%d key=%s kind=%s) but the node has no undelivered emitted event for this stream (duplicate, filtered or invented)",
					e.M, e.Vb, e.Seq, keyStr(e.Key), e.S)
				continue
			}
			h := q[0]
			if h.ev.Seq != e.Seq {
				// find whether it is a later element (skip) or not there at all
				found := -1
				for j := range q {
					if q[j].ev.Seq == e.Seq {
						found = j
						break
					}
				}
				if found > 0 {
					res.violate("C03", "R2-skipped-or-reordered", e.N, sig,
						"member %d vb %d: ConsumeEvent(seq=%d) while emitted seq=%d (event #%d) was never delivered before it",
						e.M, e.Vb, e.Seq, h.ev.Seq, h.n)
					fifo[k] = q[found+1:]
				} else {
					res.violate("C03", "R1-unexpected-event", e.N, sig,
						"member %d vb %d: ConsumeEvent(seq=%d key=%s) is not among the undelivered emitted events (head seq=%d)",
						e.M, e.Vb, e.Seq, keyStr(e.Key), h.ev.Seq)
				}
				continue
			}
			fifo[k] = q[1:]
			compareFields(res, cfg, h.ev, e)
		}
	}
	if run.Ended {
		for k, q := range fifo {
			if len(q) > 0 && open[k] != "" && !closing[k.m] {
				res.violate("C03", "R3-not-delivered", q[0].n, fmt.Sprintf("vb=%d seq=%d", k.vb, q[0].ev.Seq),
					"member %d vb %d: %d emitted event(s) never reached the consumer although the stream stayed open through the quiesce phase; first seq=%d key=%s",
					k.m, k.vb, len(q), q[0].ev.Seq, keyStr(q[0].ev.Key))
			}
		}
	}
}

func compareFields(res *Result, cfg *Cfg, em, co *journal.Ev) {
	sig := fmt.Sprintf("vb=%d seq=%d", co.Vb, co.Seq)
	bad := func(field string, want, got any) {
		res.violate("C03", "R4-field-"+field, co.N, sig, "member %d vb %d seq %d: %s differs: server sent %v, consumer saw %v", co.M, co.Vb, co.Seq, field, want, got)
	}
	if em.S != co.S {
		bad("kind", em.S, co.S)
	}
	if !bytes.Equal(em.Key, co.Key) {
		bad("key", keyStr(em.Key), keyStr(co.Key))
	}
	if co.S != "exp" && !bytes.Equal(em.Raw, co.Raw) {
		bad("value", len(em.Raw), len(co.Raw))
	}
	if got := co.A["cas"]; got != strconv.FormatUint(uint64(em.I), 10) {
		bad("cas", uint64(em.I), got)
	}
	if got := co.A["rev"]; got != em.A["rev"] {
		bad("revNo", em.A["rev"], got)
	}
	if co.S == "mut" {
		if co.A["flags"] != em.A["flags"] {
			bad("flags", em.A["flags"], co.A["flags"])
		}
		if co.A["expiry"] != em.A["expiry"] {
			bad("expiry", em.A["expiry"], co.A["expiry"])
		}
	}
	if co.S != "exp" && co.A["dt"] != em.A["dt"] {
		bad("datatype", em.A["dt"], co.A["dt"])
	}
	cid := strconv.FormatUint(em.U, 10)
	if co.A["cid"] != cid {
		bad("collectionID", cid, co.A["cid"])
	}
	if want := expectedCollName(cfg, cid); co.A["coll"] != want {
		bad("collectionName", want, co.A["coll"])
	}
	wantT := strconv.FormatUint(uint64(em.I)/1_000_000_000, 10)
	if co.A["etime"] != wantT || co.A["etimens"] != "0" {
		bad("eventTime", wantT+"s", co.A["etime"]+"s+"+co.A["etimens"]+"ns")
	}
	if co.Off == nil || co.Off.Seq != co.Seq {
		bad("offset.seqNo", co.Seq, co.Off)
	}
}
