package oracle

import (
	"fmt"
	"sort"
	"strings"

	"verif/journal"
)

// C11 — rebalance converges to the latest assignment, once, without stopping the client.
//
// Notifications are bus publishes by the real publishers (API PUT /membership/info,
// ServiceDiscovery.SetInfo) and API GET /rebalance calls that answered OK. A burst is a maximal run of
// notifications each arriving before the reopen triggered by its predecessors has started.
func init() { checkers["C11"] = checkC11 }

// partition: vBuckets 0..n-1 split over t members into contiguous ascending ranges whose sizes differ by
// at most one, larger ones first (the rule of property C09).
func partition(n, t, member int) (int, int) {
	base, rem := n/t, n%t
	start := 0
	for i := 1; i < member; i++ {
		sz := base
		if i <= rem {
			sz++
		}
		start += sz
	}
	sz := base
	if member <= rem {
		sz++
	}
	return start, start + sz - 1
}

type c11member struct {
	ready        bool
	gram         string // position in the callback grammar
	phase        string
	lastInfo     [2]int
	haveInfo     bool
	inEffect     [2]int
	notifs       int   // notifications since the last reopen started
	notifsDiffer bool  // ... at least one of them differs from the membership in effect (or is a forced /rebalance)
	lastNotifT   int64 // time of the last notification since the last reopen started
	firstNotifN  int
	cycleOpen    bool
	closing      bool
	stopped      bool
	sessVbs      map[int]bool
	inReopen     bool
	reopenInfo   [2]int
	rebalances   int
	blocked      int
	duringClose  bool // a notification arrived while a close step was in progress (since the last quiet period)
}

func checkC11(run *Run, res *Result) {
	checkC11Rules(run, res)
	markPreemptedWait(run, res, "C11/R6-client-stopped", "C11/R6-process-died", "C11/R1-callbacks-not-bracketed", "C11/R4-never-reopened", "C11/R2-delivery-while-closed", "C11/R5-reopened-on-wrong-range")
}

func checkC11Rules(run *Run, res *Result) {
	cfg := &run.Cfg
	ms := map[int]*c11member{}
	get := func(m int) *c11member {
		if ms[m] == nil {
			ms[m] = &c11member{gram: "idle", phase: "init", sessVbs: map[int]bool{}}
		}
		return ms[m]
	}
	loaded := map[vbKey]*journal.Off{}
	delay := cfg.RebalanceDelay
	if cfg.Membership == "dynamic" {
		delay = 0
	}
	// a GET /rebalance that will answer OK took the rebalance path when it was called: it counts from its call
	okCall := map[string]bool{}
	{
		open := map[int][]string{}
		for i := range run.Evs {
			e := &run.Evs[i]
			if e.K == journal.KCall && e.S == "api:GET /rebalance" {
				open[e.M] = append(open[e.M], e.ID)
			}
			if e.K == journal.KAPI && strings.HasPrefix(e.S, "GET /rebalance") && len(open[e.M]) > 0 {
				// answers are journalled by the same actor right before its ret event; match by the ret that follows
				for j := i + 1; j < len(run.Evs) && j < i+4; j++ {
					if run.Evs[j].K == journal.KRet && run.Evs[j].S == "api:GET /rebalance" && run.Evs[j].M == e.M {
						okCall[run.Evs[j].ID] = e.S2 == "OK"
						break
					}
				}
			}
		}
	}
	var lastT int64
	for i := range run.Evs {
		e := &run.Evs[i]
		lastT = e.T
		switch e.K {
		case journal.KReady:
			get(e.M).ready = true
		case journal.KKVR:
			// what the store answered to this member's checkpoint read (the session resumes from it)
			if e.S == "lookupin" && isCkptKey(e.Key) {
				vb := ckptVb(e.Key)
				if o, _, ok := parseCkptPayload(e.Key, e.Raw); ok && e.S2 == "ok" {
					loaded[vbKey{e.M, vb}] = o
				} else {
					loaded[vbKey{e.M, vb}] = &journal.Off{}
				}
			}
		case journal.KCall:
			if e.S == "Close" {
				get(e.M).closing = true
			}
			if e.S == "api:GET /rebalance" {
				mm := get(e.M)
				answered, known := okCall[e.ID]
				if mm.ready && (answered || !known && mm.phase != "closed") {
					c11notify(res, mm, e, true)
					res.probe("notification:api-rebalance")
				}
			}
		case journal.KRet:
			if e.S == "Start" {
				mm := get(e.M)
				mm.stopped = true
				if !mm.closing {
					res.violate("C11", "R6-client-stopped", e.N, "plain", "member %d: Start() returned although Close() was never called (rebalances completed so far: %d)", e.M, mm.rebalances)
				}
			}
		case journal.KPublish:
			mm := get(e.M)
			v := [2]int{int(e.I), int(e.U)}
			mm.lastInfo, mm.haveInfo = v, true
			if !mm.ready {
				continue
			}
			eff := mm.inEffect
			if mm.inReopen {
				eff = mm.reopenInfo // the session being opened right now already uses this membership
			}
			c11notify(res, mm, e, v != eff)
			if v == eff {
				res.probe("notification-repeating-membership-in-effect")
			}
		case journal.KConsume:
			mm := get(e.M)
			if mm.phase == "closed" && !mm.closing {
				res.violate("C11", "R2-delivery-while-closed", e.N, "plain", "member %d: ConsumeEvent(vb %d seq %d) while the stream is closed for a rebalance", e.M, e.Vb, e.Seq)
			}
		case journal.KSReq:
			mm := get(e.M)
			if e.S2 == "ok" || e.S2 == "0x23" {
				mm.sessVbs[e.Vb] = true
			}
			if mm.inReopen && e.Off != nil && e.U&0x80 != 0 {
				want := loaded[vbKey{e.M, e.Vb}]
				if want != nil && cfg.AutoReset != "latest" && (want.UUID != e.Off.UUID || want.Seq != e.Off.Seq || want.Start != e.Off.Start || want.End != e.Off.End) {
					res.violate("C11", "R5-reopen-not-from-stored-checkpoint", e.N, fmt.Sprintf("vb=%d", e.Vb),
						"member %d vb %d: reopened after the rebalance with %s, but the store had answered this session's checkpoint read with %s", e.M, e.Vb, e.Off, want)
				}
			}
		case journal.KHandler:
			mm := get(e.M)
			if !mm.ready {
				if e.S == "BeforeStreamStart" && mm.haveInfo {
					mm.inEffect = mm.lastInfo
				}
				if e.S == "AfterStreamStart" {
					mm.phase = "open"
				}
				continue
			}
			if mm.closing {
				continue // the shutdown's own stop pair
			}
			c11grammar(res, mm, e)
			switch e.S {
			case "BeforeRebalanceStart":
				mm.cycleOpen = true
				switch {
				case mm.notifs == 0:
					if mm.blocked > 0 {
						mm.blocked--
					}
					res.violate("C11", "R3-extra-close-reopen-cycle", e.N, c11sig(mm),
						"member %d: a close/reopen cycle begins although no notification arrived since the previous reopen started: the burst that ended there is served a second time", e.M)
				case !mm.notifsDiffer:
					res.violate("C11", "R7-repeated-membership-interrupts", e.N, "plain",
						"member %d: the stream is closed for a rebalance although every notification since the previous reopen repeated the membership already in effect (%d/%d)", e.M, mm.inEffect[0], mm.inEffect[1])
				}
				switch {
				case mm.phase == "open":
					res.probe("first-notification-while-open")
				}
			case "BeforeStreamStop":
				mm.phase = "closing"
			case "AfterStreamStop":
				mm.phase = "closed"
			case "BeforeRebalanceEnd":
				if e.T < mm.lastNotifT+delay {
					res.violate("C11", "R4-reopened-too-early", e.N, c11sig(mm),
						"member %d: the reopen begins %s after the last notification of the burst; the configured delay is %s", e.M, fmtDur(e.T-mm.lastNotifT), fmtDur(delay))
				}
			case "BeforeStreamStart":
				mm.phase = "opening"
				mm.inReopen = true
				mm.reopenInfo = mm.lastInfo
				mm.sessVbs = map[int]bool{}
				mm.notifs, mm.notifsDiffer = 0, false
			case "AfterStreamStart":
				mm.phase = "open"
				mm.inReopen = false
				mm.inEffect = mm.reopenInfo
				lo, hi := partition(cfg.NVb, mm.reopenInfo[1], mm.reopenInfo[0])
				var got []int
				for vb := range mm.sessVbs {
					got = append(got, vb)
				}
				sort.Ints(got)
				okRange := len(got) == hi-lo+1
				for j, vb := range got {
					if vb != lo+j {
						okRange = false
					}
				}
				if !okRange {
					res.violate("C11", "R5-reopened-on-wrong-range", e.N, "plain",
						"member %d: reopened on vBuckets %v; the most recent membership information before the reopen is %d/%d, i.e. vBuckets %d..%d of %d", e.M, got, mm.reopenInfo[0], mm.reopenInfo[1], lo, hi, cfg.NVb)
				}
				res.probe("reopen-judged")
			case "AfterRebalanceEnd":
				mm.cycleOpen = false
				mm.rebalances++
				if mm.blocked == 0 {
					mm.duringClose = false // every caller that had been blocked by a close step has been served
				}
			}
		}
	}
	died := res.DeathKind == "runtime-panic" || res.DeathKind == "library-failstop"
	var mids []int
	for m := range ms {
		mids = append(mids, m)
	}
	sort.Ints(mids)
	for _, m := range mids {
		mm := ms[m]
		if !mm.ready {
			continue
		}
		if died && !mm.closing {
			res.violate("C11", "R6-process-died", len(run.Evs), "plain", "member %d: the process died while handling membership changes (%d rebalances completed): %s", m, mm.rebalances, res.FailStop)
			continue
		}
		if run.Ended && !mm.closing && (mm.notifs > 0 && mm.notifsDiffer || mm.cycleOpen) && lastT-mm.lastNotifT > 3*cfg.RebalanceDelay+20_000_000_000 {
			res.violate("C11", "R4-never-reopened", len(run.Evs), "plain",
				"member %d: %s after the last notification the stream is still not reopened (phase %s, notifications pending %d)", m, fmtDur(lastT-mm.lastNotifT), mm.phase, mm.notifs)
		}
	}
}

func c11sig(mm *c11member) string {
	if mm.duringClose {
		return "notification-during-close-or-reopen-step"
	}
	return "plain"
}

func c11notify(res *Result, mm *c11member, e *journal.Ev, differs bool) {
	mm.notifs++
	if differs {
		mm.notifsDiffer = true
	}
	mm.lastNotifT = e.T
	if mm.notifs == 1 {
		mm.firstNotifN = e.N
	}
	switch mm.phase {
	case "closing":
		mm.duringClose = true
		mm.blocked++ // this caller does not join the running cycle: it is served by a cycle of its own later
		res.probe("notification-during-close")
	case "closed":
		res.probe("notification-during-delay")
	case "opening":
		mm.duringClose = true
		mm.blocked++ // re-arms a timer that calls Rebalance() again after the delay, whatever happens meanwhile
		res.probe("notification-while-reopening")
	}
	if mm.notifs > 1 {
		res.probe("burst-of-several-notifications")
	}
}

var c11next = map[string]string{
	"idle|BeforeRebalanceStart": "brs", "brs|BeforeStreamStop": "bss", "bss|AfterStreamStop": "ass", "ass|AfterRebalanceStart": "ars",
	"brs|AfterRebalanceStart": "ars", "ars|BeforeRebalanceEnd": "bre", "bre|BeforeStreamStart": "bst", "bst|AfterStreamStart": "ast", "ast|AfterRebalanceEnd": "idle",
}

func c11grammar(res *Result, mm *c11member, e *journal.Ev) {
	nx, ok := c11next[mm.gram+"|"+e.S]
	if !ok {
		res.violate("C11", "R1-callbacks-not-bracketed", e.N, "plain", "member %d: lifecycle callback %s in state %q: the callbacks are not properly bracketed", e.M, e.S, mm.gram)
		// resynchronise
		switch e.S {
		case "AfterRebalanceEnd":
			mm.gram = "idle"
		case "BeforeRebalanceStart":
			mm.gram = "brs"
		}
		return
	}
	mm.gram = nx
}
