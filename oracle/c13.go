package oracle

import (
	"fmt"
	"sort"
	"strings"

	"verif/journal"
)

// C13 — graceful shutdown is clean from every lifecycle state.
//
// R1: after Close() is called, Start() returns within the bound and the process does not die.
// R2: with automatic checkpointing and no fault injected after the call, every position an Ack had
//
//	settled before the call is stored when Start() returns.
//
// R3: after Start() returned nothing runs any more: no ConsumeEvent, no request of any kind from the
//
//	member (stream requests, observe, ping, heartbeat, checkpoint writes).
//
// R4: every stream that was open received CLOSE_STREAM (or its connection was closed), and all the
//
//	member's connections are closed.
func init() { checkers["C13"] = checkC13 }

type c13member struct {
	closeN                 int
	closeT                 int64
	closed                 bool // Start returned
	retN                   int
	ackPos                 map[int]uint64
	ackInOpen              map[int]uint64
	savesAtClose           int
	pendingAtClose         int  // checkpoint write requests in flight when Close() was called
	endBeforeStop          bool // a stream ended (transiently) after Close() was called and before the stream stop began
	nondocPos              map[int]uint64
	inAck                  map[int]bool
	absorbSys              map[int]map[uint64]bool
	sid                    map[int]string
	openStreams            map[int]bool
	closeReq               map[int]bool
	conns                  map[string]bool
	faultAfter             bool
	state                  string
	parkedAt               bool
	saving                 bool
	rebalancing            bool
	closeInRebalance       bool
	rebalanceAfterShutdown bool
	lastPubT               int64
	lastBRST               int64 // start of the last rebalance before Close()
	pubs                   int
	quietClose             bool // Close() arrived with no rebalance under way and no notification recent enough to have one pending
	shutStopN              int  // quietClose: the stream stop that belongs to the shutdown itself
	pubAfterStop           int  // first notification published after it
	apiRebalance           bool // GET /rebalance was called after Close()
}

func checkC13(run *Run, res *Result) {
	checkC13Rules(run, res)
	markPreemptedWait(run, res, "C13/R2-settled-position-not-stored", "C13/R1-crash-during-shutdown", "C13/R1-shutdown-never-completed", "C13/R3-activity-after-shutdown", "C13/R4-stream-left-open", "C13/R4-connections-left-open")
}

func checkC13Rules(run *Run, res *Result) {
	cfg := &run.Cfg
	ms := map[int]*c13member{}
	get := func(m int) *c13member {
		if ms[m] == nil {
			ms[m] = &c13member{ackPos: map[int]uint64{}, nondocPos: map[int]uint64{}, inAck: map[int]bool{}, absorbSys: map[int]map[uint64]bool{},
				sid: map[int]string{}, openStreams: map[int]bool{}, closeReq: map[int]bool{}, conns: map[string]bool{}}
		}
		return ms[m]
	}
	stored := map[int]uint64{}
	have := map[int]bool{}
	pendingCkpt := map[int]int{} // member -> checkpoint write requests in flight
	inConsume := map[int]int{}
	anyFault := false
	hardFault := false // a fault other than an error reply to a single request
	lastErrN := 0
	lastConsEnd := map[int]int64{}
	stopN := map[int]int{}         // member -> event number of its last BeforeStreamStop
	fileAfterStop := map[int]int{} // member -> the checkpoint file was rewritten after the stream had been stopped
	streamClosedWindow := map[int]bool{}
	opening := map[int]bool{}
	openCommits := map[int]int{}
	bound := cfg.CkptTimeout + 75_000_000_000
	legacy := cfg.Version[0] < 5 || cfg.Version[0] == 5 && cfg.Version[1] < 5
	endDuringClose := false
	if legacy {
		bound += int64(cfg.NVb) * 60_000_000_000
	}
	if cfg.HealthCheck {
		bound += 65_000_000_000
	}
	for i := range run.Evs {
		e := &run.Evs[i]
		switch e.K {
		case journal.KFault:
			if strings.HasPrefix(e.S, "end-during-close") {
				endDuringClose = true
			}
			if e.S != "slowconsumer" {
				anyFault = true // a stalled connection or an in-flight faulted save outlives the instant it was injected
			}
			if strings.HasPrefix(e.S, "err:") || e.S == "delay" {
				lastErrN = e.N // an error status replied to one request / one reply held back: over once that request is answered
			} else if e.S != "slowconsumer" {
				hardFault = true
			}
		case journal.KConn:
			mm := get(e.M)
			switch e.S {
			case "open":
				mm.conns[e.ID] = true
			case "closed-by-client", "drop":
				delete(mm.conns, e.ID)
			}
		case journal.KHandler:
			switch e.S {
			case "BeforeStreamStop":
				stopN[e.M] = e.N
				if mm := get(e.M); mm.closeN > 0 && mm.quietClose && mm.shutStopN == 0 {
					mm.shutStopN = e.N
				}
			case "AfterStreamStop":
				streamClosedWindow[e.M] = true
			case "AfterStreamStart":
				opening[e.M] = false
			case "BeforeStreamStart":
				opening[e.M] = true
				get(e.M).ackInOpen = nil
				streamClosedWindow[e.M] = false
				// a new session starts from the store: what earlier sessions acknowledged is not this shutdown's to save
				get(e.M).ackPos, get(e.M).nondocPos = map[int]uint64{}, map[int]uint64{}
			case "BeforeRebalanceStart":
				get(e.M).rebalancing = true
				if mm := get(e.M); mm.closeN == 0 {
					mm.lastBRST = e.T
				}
				if mm := get(e.M); mm.shutStopN > 0 && mm.pubAfterStop > 0 && !mm.apiRebalance {
					// nothing was pending when Close() arrived and nothing was announced until the shutdown began to stop the
					// streams: this rebalance stems from a notification published afterwards
					res.violate("C13", "R5-notification-acted-on-during-stream-stop", e.N, "plain",
						"member %d: Close() (event #%d) arrived with no rebalance pending; the shutdown began to stop the streams at event #%d; the membership notification published after that (event #%d) still started a rebalance on the closing client",
						e.M, mm.closeN, mm.shutStopN, mm.pubAfterStop)
				}
				if mm := get(e.M); mm.closeN > 0 && !mm.closed {
					mm.rebalanceAfterShutdown = true // a pending rebalance timer fires while the shutdown is in progress
				}
				if mm := get(e.M); mm.closed {
					mm.rebalanceAfterShutdown = true
					res.violate("C13", "R3-activity-after-shutdown", e.N, "rebalance-timer-fired-during-or-after-shutdown",
						"member %d: a rebalance begins after Start() had returned (event #%d): a pending rebalance timer survived the shutdown", e.M, mm.retN)
				}
			case "AfterRebalanceEnd":
				get(e.M).rebalancing = false
			}
		case journal.KPublish:
			if e.S != "membershipChanged" {
				continue
			}
			mm := get(e.M)
			mm.lastPubT = e.T
			mm.pubs++
			if mm.closeN > 0 && mm.shutStopN == 0 {
				mm.quietClose = false // announced before the shutdown reached the stream stop: may legitimately be in progress
			}
			if mm.shutStopN > 0 && mm.pubAfterStop == 0 {
				mm.pubAfterStop = e.N
				res.probe("notification-during-shutdown-stream-stop")
			}
		case journal.KSReq:
			if e.S2 == "ok" {
				mm := get(e.M)
				mm.sid[e.Vb] = e.ID
				mm.openStreams[e.Vb] = true
				mm.absorbSys[e.Vb] = map[uint64]bool{}
			}
			if mm := get(e.M); mm.closed {
				res.violate("C13", "R3-activity-after-shutdown", e.N, "stream-request", "member %d: STREAM_REQ for vb %d answered after Start() had returned (event #%d)", e.M, e.Vb, mm.retN)
			}
		case journal.KEmit:
			mm := get(e.M)
			if mm.sid[e.Vb] != e.ID {
				continue
			}
			if e.S == "end" {
				if mm.closeN > 0 && stopN[e.M] < mm.closeN && e.I != 0 && e.I != 1 {
					mm.endBeforeStop = true // Close() was called, dcp.close() has not reached stream.Close() yet
				}
				delete(mm.openStreams, e.Vb)
			} else if e.S == "seqadv" || strings.HasPrefix(e.S, "sys:") {
				mm.absorbSys[e.Vb][e.Seq] = true
			}
		case journal.KConsume:
			mm := get(e.M)
			inConsume[e.M]++
			if mm.closed {
				res.violate("C13", "R3-event-after-shutdown", e.N, "consume", "member %d: ConsumeEvent(vb %d seq %d) invoked after Start() had returned (event #%d)", e.M, e.Vb, e.Seq, mm.retN)
			}
		case journal.KConsEnd:
			inConsume[e.M]--
			lastConsEnd[e.M] = e.T
		case journal.KAck:
			get(e.M).inAck[e.Vb] = true
		case journal.KAckEnd:
			get(e.M).inAck[e.Vb] = false
		case journal.KTrack:
			if e.Off == nil {
				continue
			}
			mm := get(e.M)
			if mm.closeN > 0 {
				continue // settled after the call: not promised
			}
			if mm.inAck[e.Vb] {
				if e.Off.Seq > mm.ackPos[e.Vb] {
					mm.ackPos[e.Vb] = e.Off.Seq
					if opening[e.M] {
						if mm.ackInOpen == nil {
							mm.ackInOpen = map[int]uint64{}
						}
						mm.ackInOpen[e.Vb] = e.Off.Seq // accepted while the session's checkpoint load is still running
					}
				}
			} else if mm.absorbSys[e.Vb][e.Off.Seq] {
				mm.nondocPos[e.Vb] = e.Off.Seq
			}
		case journal.KKVW:
			if e.Off != nil && e.Vb >= 0 && isCkptKey(e.Key) {
				stored[e.Vb], have[e.Vb] = e.Off.Seq, true
			}
		case journal.KDisk:
			if e.S == "write" {
				for vb := range stored {
					delete(stored, vb)
					delete(have, vb)
				}
				for vb, o := range parseFileStore(e.Raw) {
					stored[vb], have[vb] = o.Seq, true
				}
				if sn := stopN[e.M]; sn > 0 && e.N > sn {
					fileAfterStop[e.M] = e.N
				}
				if mm := get(e.M); mm.closed && e.M > 0 {
					res.violate("C13", "R3-activity-after-shutdown", e.N, "file-write", "member %d wrote the checkpoint file after Start() had returned (event #%d)", e.M, mm.retN)
				}
			}
		case journal.KReq:
			mm := get(e.M)
			if isCkptKey(e.Key) && e.S != "CMD_SUBDOCMULTILOOKUP" {
				pendingCkpt[e.M]++
			}
			if e.S == "CMD_DCPCLOSESTREAM" {
				mm.closeReq[e.Vb] = true
			}
			if strings.HasPrefix(e.S, "HTTP GET /") && mm.closeN > 0 && !mm.closed && e.T > mm.closeT && cfg.HealthCheck {
				// Stop() of the health check is the first step of the shutdown: a ping that starts later means it was not stopped
				res.violate("C13", "R3-health-check-not-stopped", e.N, "plain",
					"member %d: a health-check ping was issued %s after Close() had been called (event #%d): the checker kept running its round during shutdown", e.M, fmtDur(e.T-mm.closeT), mm.closeN)
			}
			if mm.closed {
				res.violate("C13", "R3-activity-after-shutdown", e.N, e.S, "member %d: request %s (vb %d key %s) reached the cluster after Start() had returned (event #%d)", e.M, e.S, e.Vb, keyStr(e.Key), mm.retN)
			}
		case journal.KRsp:
			if isCkptKey(e.Key) && e.S != "CMD_SUBDOCMULTILOOKUP" {
				pendingCkpt[e.M]--
			}
		case journal.KCall:
			if e.S == "Commit" || e.S == "CommitInside" {
				openCommits[e.M]++
			}
			if e.S == "api:GET /rebalance" {
				if mm := get(e.M); mm.closeN > 0 {
					mm.apiRebalance = true // the API's own trigger does not go through the bus
				}
			}
			if e.S != "Close" {
				continue
			}
			mm := get(e.M)
			mm.closeN, mm.closeT = e.N, e.T
			// quiet: no rebalance under way, and neither a notification nor the start of a rebalance (a fired timer may
			// have re-armed itself) recent enough for a timer to be pending
			mm.quietClose = !mm.rebalancing && (mm.pubs == 0 || mm.lastPubT+cfg.RebalanceDelay+1_000_000_000 < e.T) &&
				(mm.lastBRST == 0 || mm.lastBRST+cfg.RebalanceDelay+1_000_000_000 < e.T)
			mm.savesAtClose = openCommits[e.M]
			mm.pendingAtClose = pendingCkpt[e.M]
			mm.closeInRebalance = mm.rebalancing
			switch {
			case mm.rebalancing && streamClosedWindow[e.M]:
				res.probe("close:rebalance-closed-window")
			case mm.rebalancing:
				res.probe("close:during-rebalance")
			case inConsume[e.M] > 0:
				res.probe("close:during-delivery")
			case pendingCkpt[e.M] > 0:
				res.probe("close:save-in-flight")
			default:
				res.probe("close:idle")
			}
		case journal.KRet:
			if (e.S == "Commit" || e.S == "CommitInside") && openCommits[e.M] > 0 {
				openCommits[e.M]--
			}
			if e.S != "Start" {
				continue
			}
			mm := get(e.M)
			mm.closed, mm.retN = true, e.N
			if mm.closeN == 0 {
				continue
			}
			res.probe("shutdown-completed")
			from := mm.closeT
			if lastConsEnd[e.M] > from {
				from = lastConsEnd[e.M] // the consumer's own ConsumeEvent was still running: its duration is not the library's
			}
			// saves queue behind one another on the save lock and each may run into its timeout: every Commit
			// still in flight when Close() was called adds one checkpoint timeout to the bound
			if e.T-from > bound+int64(mm.savesAtClose)*cfg.CkptTimeout {
				res.violate("C13", "R1-shutdown-too-slow", e.N, "plain", "member %d: Start() returned %s after Close() was called and the last running ConsumeEvent had returned (bound %s)", e.M, fmtDur(e.T-from), fmtDur(bound))
			}
			// judged when no fault can reach into the shutdown: none at all, or only error replies whose saves had failed
			// and finished before Close() was called (the marks are put back; the shutdown's own save has to store them)
			errsOver := lastErrN > 0 && !hardFault && lastErrN < mm.closeN && mm.pendingAtClose == 0 && mm.savesAtClose == 0 && !cfg.HealthCheck
			if errsOver {
				res.probe("close-after-a-failed-save")
			}
			if cfg.CkptType == "auto" && !cfg.ReadOnly && (!anyFault || errsOver) {
				var vbs []int
				for vb := range mm.ackPos {
					vbs = append(vbs, vb)
				}
				sort.Ints(vbs)
				for _, vb := range vbs {
					if !have[vb] || stored[vb] < mm.ackPos[vb] {
						sig := "plain"
						if mm.ackInOpen[vb] == mm.ackPos[vb] && mm.ackPos[vb] > 0 {
							sig = "ack-accepted-during-reopen-then-overwritten-by-load"
						} else if fileAfterStop[e.M] > 0 {
							sig = "file-rewritten-after-stream-stop"
						} else if mm.closeInRebalance {
							sig = "close-during-rebalance-window"
						}
						res.violate("C13", "R2-settled-position-not-stored", e.N, sig,
							"member %d vb %d: position %d had been acknowledged before Close() (event #%d); when Start() returned the store held %d (present=%v), with automatic checkpointing and no fault after the call",
							e.M, vb, mm.ackPos[vb], mm.closeN, stored[vb], have[vb])
					}
				}
			}
			var vbs []int
			for vb := range mm.openStreams {
				vbs = append(vbs, vb)
			}
			sort.Ints(vbs)
			for _, vb := range vbs {
				if !mm.closeReq[vb] {
					res.violate("C13", "R4-stream-left-open", e.N, "plain", "member %d vb %d: the stream was open and never received CLOSE_STREAM before Start() returned", e.M, vb)
				}
			}
		}
	}
	var mids []int
	for m := range ms {
		mids = append(mids, m)
	}
	sort.Ints(mids)
	for _, m := range mids {
		mm := ms[m]
		if mm.closeN == 0 {
			continue
		}
		died := res.DeathKind == "runtime-panic" || res.DeathKind == "library-failstop"
		if died {
			sig := "plain"
			if mm.closeInRebalance {
				sig = "close-during-rebalance-window"
			} else if mm.rebalanceAfterShutdown {
				sig = "rebalance-timer-fired-during-or-after-shutdown"
			} else if inReopen(run, res) && mm.endBeforeStop {
				// (the retries fail with 'vbID not found on offset map', or - when a delayed re-open got through while the
				// shutdown was closing the streams - with 'document exists' for the re-open after that; or the re-open
				// itself dereferences the maps the shutdown has set to nil)
				sig = "reopen-of-an-ended-stream-ran-into-the-shutdown"
			}
			res.violate("C13", "R1-crash-during-shutdown", len(run.Evs), sig, "member %d: the process died after Close() was called (event #%d): %s", m, mm.closeN, res.FailStop)
			continue
		}
		if !mm.closed && run.Ended {
			last := run.Evs[len(run.Evs)-1].T
			if last-mm.closeT > bound+int64(mm.savesAtClose)*cfg.CkptTimeout {
				sig := "plain"
				if mm.closeInRebalance {
					sig = "close-during-rebalance-window"
				} else if legacy && endDuringClose {
					sig = "stream-ended-by-itself-during-the-serial-close-of-a-pre-5.5-server"
				}
				res.violate("C13", "R1-shutdown-never-completed", len(run.Evs), sig, "member %d: Close() was called at %s; Start() had still not returned %s later (bound %s)", m, fmtDur(mm.closeT), fmtDur(last-mm.closeT), fmtDur(bound))
			}
		}
		if mm.closed && run.Ended && len(mm.conns) > 0 {
			var ids []string
			for id := range mm.conns {
				ids = append(ids, id)
			}
			sort.Strings(ids)
			res.violate("C13", "R4-connections-left-open", len(run.Evs), "plain", "member %d: %d connection(s) still open at the end of the run although Start() had returned: %v", m, len(ids), ids)
		}
	}
	_ = fmt.Sprint
}

// inReopen reports whether the goroutine that terminated the process was running stream.reopenStream.
func inReopen(run *Run, res *Result) bool {
	if strings.Contains(res.FailStop, "reopenStream") {
		return true
	}
	for _, f := range topFrames(run.Stderr, 8) {
		if strings.Contains(f, "stream.(*stream).reopenStream") {
			return true
		}
	}
	return false
}
