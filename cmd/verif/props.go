package main

import "time"

type propSpec struct {
	level          string
	quickRuns      int
	thoroughRuns   int
	runLimit       time.Duration
	requiredProbes []string
	assumptions    []string
}

var props = map[string]propSpec{
	"C03": {level: "exploration", quickRuns: 2500, thoroughRuns: 60000, runLimit: 30 * time.Second,
		requiredProbes: []string{"kind:mut", "kind:del", "kind:exp", "filter:reserved-prefix", "filter:skipuntil", "partial-prefix-delivered", "ack-in-a-later-step-than-delivery"}},
	"C04": {level: "exploration", quickRuns: 2500, thoroughRuns: 60000, runLimit: 30 * time.Second,
		requiredProbes: []string{"stale-ack", "repeated-ack", "ack-burst", "absorbed-event-tracked", "offsets-api-compared", "seq-gauge-compared"}},
	"C05": {level: "exploration", quickRuns: 2500, thoroughRuns: 60000, runLimit: 30 * time.Second,
		requiredProbes: []string{"ack-during-store-call", "explicit-save", "clean-save-episode", "failed-save-episode", "advanced-by-non-document-event"}},
	"C01": {level: "exploration", quickRuns: 2500, thoroughRuns: 60000, runLimit: 30 * time.Second,
		requiredProbes: []string{"checkpoint-write-judged", "crash-with-unacked-delivery", "restart-after-crash-with-unacked-event", "absorbed-event-while-earlier-delivery-unacked"}},
	"C06": {level: "exploration", quickRuns: 2500, thoroughRuns: 60000, runLimit: 30 * time.Second,
		requiredProbes: []string{"multi-item-snapshot-offset", "ack-of-event-from-older-snapshot", "seqno-advanced-closing-snapshot", "stored-offset-judged", "out-of-snapshot-item-emitted"}},
	"C13": {level: "exploration", quickRuns: 2500, thoroughRuns: 60000, runLimit: 30 * time.Second,
		requiredProbes: []string{"close:idle", "close:during-delivery", "close:save-in-flight", "shutdown-completed"}},
	"C16": {level: "exploration", quickRuns: 2500, thoroughRuns: 60000, runLimit: 30 * time.Second,
		requiredProbes: []string{"scrape-judged", "counter-judged", "scrape-while-closed-or-closing"}},
}
