package sim

import (
	"context"
	"encoding/json"
	"fmt"
	"io"
	"math/rand"
	"net"
	"os"
	"os/signal"
	"strconv"
	"syscall"
	"testing"
	"testing/synctest"
	"time"
	_ "unsafe"

	"github.com/couchbase/gocbcore/v10"
	"github.com/google/uuid"
	csmap "github.com/mhmtszr/concurrent-swiss-map"
	"github.com/sirupsen/logrus"

	"github.com/Trendyol/go-dcp/logger"
	"github.com/Trendyol/go-dcp/vsync"

	"verif/journal"
)

// ReplayFile is what the supervisor writes for a violation and what `verif replay` feeds back.
type ReplayFile struct {
	Property string `json:"property"`
	Tier     string `json:"tier"`
	Seed     int64  `json:"seed"`
	Tape     []int  `json:"tape"`
}

func TestMain(m *testing.M) {
	// process-global forever-goroutines are started outside the bubble
	ch := make(chan os.Signal, 1)
	signal.Notify(ch, syscall.SIGUSR2)
	lg := logrus.New()
	lg.SetOutput(io.Discard)
	if os.Getenv("VERIF_DEBUG") != "" {
		lg.SetOutput(os.Stderr)
		lg.SetLevel(logrus.DebugLevel)
	}
	logger.Log = &logger.Loggers{Logrus: lg}
	os.Exit(m.Run())
}

//go:linkname verifRandState runtime.verifRandState
var verifRandState uint64

var verifRandInit uint64

func init() {
	// 0xc097ef87329e28a5 is the modular inverse of the stream's increment
	randDrawsFn = func() uint64 { return (verifRandState - verifRandInit) * 0xc097ef87329e28a5 }
}

func TestRun(t *testing.T) {
	prop := os.Getenv("VERIF_PROP")
	if prop == "" {
		t.Skip("VERIF_PROP not set")
	}
	tier := os.Getenv("VERIF_TIER")
	if tier == "" {
		tier = "quick"
	}
	seed, _ := strconv.ParseInt(os.Getenv("VERIF_SEED"), 10, 64)
	mk, ok := scenarios[prop]
	if !ok {
		fatalf("unknown scenario %q", prop)
	}
	var out io.Writer = os.Stdout
	if p := os.Getenv("VERIF_JOURNAL"); p != "" && p != "-" {
		mw, err := journal.NewMapWriter(p)
		if err != nil {
			fatalf("journal: %v", err)
		}
		out = mw
	}
	w := &World{
		jw: journal.NewWriter(out), extWrites: map[int]int{}, faultsFired: map[string]int{},
		scn: mk(),
	}
	w.tape = &Tape{w: w, rng: rand.New(rand.NewSource(seed))}
	if p := os.Getenv("VERIF_REPLAY"); p != "" {
		b, err := os.ReadFile(p)
		if err != nil {
			fatalf("replay: %v", err)
		}
		var rf ReplayFile
		if err := json.Unmarshal(b, &rf); err != nil {
			fatalf("replay: %v", err)
		}
		w.tape.replay, w.tape.replaying = rf.Tape, true
		seed = rf.Seed
		if rf.Tier != "" {
			tier = rf.Tier
		}
	}
	rand.Seed(seed) //nolint (GODEBUG=randseednop=0 set by the supervisor)
	verifRandInit = uint64(seed)*0x9e3779b97f4a7c15 + 1
	verifRandState = verifRandInit // select case order and map seeds: see tools/instrument patchRuntime
	uuid.SetRand(rand.New(rand.NewSource(seed ^ 0x5eed)))
	gocbcore.VerifDial = func(ctx context.Context, addr string) (io.ReadWriteCloser, string, error) {
		return w.cl.dial(addr)
	}
	vsync.YieldHook = w.yieldHook
	gocbcore.VerifHTTPDial = func(network, addr string) (net.Conn, error) { return w.cl.httpDial(network, addr) }
	synctest.Test(t, func(t *testing.T) {
		w.t0 = time.Now()
		w.wake = make(chan struct{}, 1) // channels must be created inside the bubble
		w.cfg = defaultCfg(prop, tier)
		w.jl(&journal.Ev{K: journal.KRun, Vb: -1, S: prop, S2: tier, I: seed})
		csmap.VerifSalt = uint64(w.tape.Draw(1<<16, nil)) // iteration order of the library's concurrent maps
		w.scn.Configure(w)
		cj, _ := json.Marshal(w.cfg)
		w.jl(&journal.Ev{K: "cfg", Vb: -1, Raw: cj})
		w.scn.Boot(w)
		w.Run()
		if os.Getenv("VERIF_DUMP_AT_END") != "" {
			panic("SIMHARNESS: goroutine dump requested") // debugging aid: GOTRACEBACK=all prints every goroutine
		}
		os.Exit(0)
	})
	fmt.Fprintln(os.Stderr, "SIMHARNESS: bubble returned")
	os.Exit(3)
}
