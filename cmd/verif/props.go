package main

import "time"

type propSpec struct {
	level          string
	quickRuns      int
	thoroughRuns   int
	runLimit       time.Duration
	requiredProbes []string
	assumptions    []string
	scenarios      []string // worker scenarios that feed this property's checker (default: the property id)
}

func propOfScenario(sc string) string {
	for p, sp := range props {
		for _, x := range sp.scenarios {
			if x == sc {
				return p
			}
		}
	}
	return sc
}

var props = map[string]propSpec{
	"C03": {level: "exploration", quickRuns: 2500, thoroughRuns: 60000, runLimit: 30 * time.Second,
		requiredProbes: []string{"kind:mut", "kind:del", "kind:exp", "filter:reserved-prefix", "filter:skipuntil", "partial-prefix-delivered", "ack-in-a-later-step-than-delivery"}},
	"C04": {scenarios: []string{"C04", "C04", "C04r"}, level: "exploration", quickRuns: 2500, thoroughRuns: 60000, runLimit: 30 * time.Second,
		requiredProbes: []string{"stale-ack", "repeated-ack", "ack-burst", "absorbed-event-tracked", "offsets-api-compared", "seq-gauge-compared"}},
	"C05": {level: "exploration", quickRuns: 2500, thoroughRuns: 60000, runLimit: 30 * time.Second,
		requiredProbes: []string{"ack-during-store-call", "explicit-save", "clean-save-episode", "failed-save-episode", "advanced-by-non-document-event"}},
	"C01": {level: "exploration", quickRuns: 2500, thoroughRuns: 60000, runLimit: 30 * time.Second,
		requiredProbes: []string{"checkpoint-write-judged", "crash-with-unacked-delivery", "restart-after-crash-with-unacked-event", "absorbed-event-while-earlier-delivery-unacked"}},
	"C06": {level: "exploration", quickRuns: 2500, thoroughRuns: 60000, runLimit: 30 * time.Second,
		requiredProbes: []string{"multi-item-snapshot-offset", "ack-of-event-from-older-snapshot", "seqno-advanced-closing-snapshot", "stored-offset-judged", "out-of-snapshot-item-emitted"}},
	"C13": {scenarios: []string{"C13", "C13r"}, level: "exploration", quickRuns: 2500, thoroughRuns: 60000, runLimit: 30 * time.Second,
		requiredProbes: []string{"close:idle", "close:during-delivery", "close:save-in-flight", "shutdown-completed"}},
	"C16": {scenarios: []string{"C16", "C16", "C16r"}, level: "exploration", quickRuns: 2500, thoroughRuns: 60000, runLimit: 30 * time.Second,
		requiredProbes: []string{"scrape-judged", "counter-judged", "scrape-while-closed-or-closing"}},
	"C11": {level: "exploration", quickRuns: 2500, thoroughRuns: 50000, runLimit: 30 * time.Second,
		requiredProbes: []string{"reopen-judged", "notification-during-close", "notification-during-delay", "notification-while-reopening", "burst-of-several-notifications", "notification:api-rebalance"}},
}
