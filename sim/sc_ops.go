package sim

import (
	"context"
	"crypto/sha256"
	"encoding/hex"
	"fmt"
	"sort"
	"strings"
	"time"

	"github.com/couchbase/gocbcore/v10"
	"github.com/couchbase/gocbcore/v10/memd"

	"github.com/Trendyol/go-dcp/couchbase"
	"github.com/Trendyol/go-dcp/models"
	"github.com/Trendyol/go-dcp/tracing"

	"verif/journal"
)

// scOps (C20, wire level): every Couchbase operation wrapper of the library is called by an actor
// against a scripted per-request node behaviour: prompt reply, error status, reply 1 ms before / after
// the wrapper's deadline, no reply at all, connection drop while the request waits.
type scOps struct {
	baseScn
	m         *Member
	ops       []string
	behaviour string
	target    int // which request of the call is given the behaviour (0-based arrival order)
	opIdx     int
	state     string // idle | running | done
	callT     time.Duration
	deadline  time.Duration
	seen      int
	handled   bool
	callN     int
	obs       couchbase.Observer
	ready     bool
	tested    bool
	aft       []string // operations run after the one under test
	aftIdx    int
	stage     int // MetaSave: which link of a vBucket's request chain is scripted
	counted   map[int]bool
	perKey    map[string]int
}

var opNames = []string{"CreateDocument", "UpdateDocument", "DeleteDocument", "UpsertXattrs", "GetXattrs", "Get", "CreatePath",
	"Ping", "GetFailOverLogs", "OpenStream", "CloseStream", "GetVBucketSeqNos", "GetCollectionIDs", "MetaSave", "MetaLoad", "MetaClear"}

var opBehaviours = []string{"prompt", "error", "before-deadline", "after-deadline", "never", "drop"}

func init() { scenarios["C20"] = func() Scenario { return &scOps{} } }

func (s *scOps) Configure(w *World) {
	c, t := w.cfg, w.tape
	c.NVb = 2 + t.Draw(3, nil)
	c.NNodes = 1 + t.Draw(2, nil)
	c.PreItems, c.MaxItems = 2, 2
	c.W.ExtWrite = 0
	c.HealthTimeout = 2999 * time.Millisecond
	c.CkptTimeout = 2001 * time.Millisecond
	c.MaxSteps = 400
	c.Faults, c.DelayFaults, c.BootFaults = false, false, false
	c.QuiesceBudget = 100 * time.Second
	c.AdvEventMax = 1 * time.Second
	c.CollectionNames, c.ScopeName = []string{"c1"}, "s1"
	s.ops = []string{Pick(t, opNames, nil)}
	s.behaviour = Pick(t, opBehaviours, nil)
	s.target = t.Draw(2, nil)
	switch s.ops[0] {
	case "CreateDocument", "UpdateDocument", "DeleteDocument", "UpsertXattrs", "CreatePath", "MetaSave", "MetaClear":
		if s.behaviour != "prompt" && s.behaviour != "error" {
			s.aft = []string{"AftCreate", "AftUpdateMissing"}
		}
	}
	if s.ops[0] == "MetaSave" {
		// the save of one vBucket is a chain (xattr write, not found, create, xattr write): script any link of it
		s.stage = t.Draw(3, nil)
		c.Extra["stage"] = fmt.Sprint(s.stage)
	}
	c.Extra["op"], c.Extra["behaviour"] = s.ops[0], s.behaviour
	if t.Draw(3, nil) == 0 {
		// the goroutine that issued the operation is pre-empted before it waits for the completion: the reply
		// may be processed first ("completion and waiter in either order")
		c.YieldSites = map[string]bool{"asyncop.wait": true}
	}
	w.buildCluster()
	w.cl.collections["s1.c1"] = 8
	s.state = "idle"
}

// Boot creates the agents and the real client; no Dcp object is started.
func (s *scOps) Boot(w *World) {
	m := w.addMember()
	s.m = m
	m.started = true
	w.jl(&journal.Ev{K: journal.KMember, M: m.id, Vb: -1})
	go func() {
		c := m.cfg
		m.agent = m.createAgent("a", c.BucketName, c.MaxQueueSize, 1<<20, c.ConnectionTimeout)
		m.meta = m.agent
		m.dagent = m.createDcpAgent()
		m.client = couchbase.VerifNewClient(c, m.agent, m.meta, m.dagent)
		w.mu.Lock()
		s.ready = true
		w.mu.Unlock()
		w.poke()
	}()
}

func hashBytes(b []byte) string {
	h := sha256.Sum256(b)
	return hex.EncodeToString(h[:6])
}

// runOp performs one wrapper call in an actor goroutine.
func (s *scOps) runOp(w *World, name string, underTest bool) {
	m := s.m
	c := m.cfg
	ctxT := 1999 * time.Millisecond
	var deadline time.Duration
	var f func() string
	key := []byte("_connector:cbgo:" + c.Dcp.Group.Name + ":optest")
	res := func(err error, payload string) string {
		if err != nil {
			msg := err.Error()
			if i := strings.Index(msg, " | "); i >= 0 {
				msg = msg[:i] // gocbcore appends a JSON blob with random connection ids
			}
			if strings.Contains(msg, "deadline exceeded") || strings.Contains(msg, "timeout") {
				// the context and gocbcore's own timer expire at the same instant; which one the wrapper's select sees is the runtime's coin
				msg = "timeout"
			}
			return "err:" + msg
		}
		return "ok:" + payload
	}
	withCtx := func(g func(ctx context.Context) string) func() string {
		return func() string {
			ctx, cancel := context.WithTimeout(context.Background(), ctxT)
			defer cancel()
			return g(ctx)
		}
	}
	switch name {
	case "CreateDocument":
		deadline = ctxT
		f = withCtx(func(ctx context.Context) string {
			return res(couchbase.CreateDocument(ctx, m.meta, "_default", "_default", key, []byte(`{"a":1}`), 0, 0), "")
		})
	case "AftCreate": // aftermath: a write the node confirms
		deadline = ctxT
		f = withCtx(func(ctx context.Context) string {
			return res(couchbase.CreateDocument(ctx, m.meta, "_default", "_default", []byte("_connector:cbgo:"+c.Dcp.Group.Name+":aft1"), []byte(`{"a":1}`), 0, 0), "")
		})
	case "AftUpdateMissing": // aftermath: a write the node refuses (the document does not exist)
		deadline = ctxT
		f = withCtx(func(ctx context.Context) string {
			return res(couchbase.UpdateDocument(ctx, m.meta, "_default", "_default", []byte("_connector:cbgo:"+c.Dcp.Group.Name+":aft-missing"), []byte(`{"a":2}`), 0, nil), "")
		})
	case "UpdateDocument":
		deadline = ctxT
		f = withCtx(func(ctx context.Context) string {
			return res(couchbase.UpdateDocument(ctx, m.meta, "_default", "_default", key, []byte(`{"a":2}`), 0, nil), "")
		})
	case "DeleteDocument":
		deadline = ctxT
		f = withCtx(func(ctx context.Context) string {
			return res(couchbase.DeleteDocument(ctx, m.meta, "_default", "_default", key), "")
		})
	case "UpsertXattrs":
		deadline = ctxT
		f = withCtx(func(ctx context.Context) string {
			return res(couchbase.UpsertXattrs(ctx, m.meta, "_default", "_default", key, "cbgo", []byte(`{"x":1}`), 0), "")
		})
	case "GetXattrs":
		deadline = 5 * time.Second
		f = func() string {
			b, err := couchbase.GetXattrs(context.Background(), m.meta, "_default", "_default", key, "cbgo")
			return res(err, hashBytes(b))
		}
	case "Get":
		deadline = ctxT
		f = withCtx(func(ctx context.Context) string {
			r, err := couchbase.Get(ctx, m.meta, "_default", "_default", key)
			if err != nil {
				return res(err, "")
			}
			return res(nil, hashBytes(r.Value))
		})
	case "CreatePath":
		deadline = ctxT
		f = withCtx(func(ctx context.Context) string {
			return res(couchbase.CreatePath(ctx, m.meta, "_default", "_default", []byte("_connector:cbgo:"+c.Dcp.Group.Name+":idx"), []byte("p1"), []byte("7"), memd.SubdocDocFlagMkDoc), "")
		})
	case "Ping":
		deadline = c.HealthCheck.Timeout
		f = func() string {
			r, err := m.client.Ping()
			if err != nil {
				return "err:unhealthy" // timeout and "some services are not healthy" race at the deadline
			}
			return res(nil, r.MemdEndpoint+"+"+r.MgmtEndpoint)
		}
	case "GetFailOverLogs":
		deadline = 60 * time.Second
		f = func() string {
			fl, err := m.client.GetFailOverLogs(0)
			return res(err, fmt.Sprint(fl))
		}
	case "OpenStream":
		deadline = 60 * time.Second
		f = func() string {
			s.obs = couchbase.NewObserver(c, 0, ^uint64(0), func(models.ListenerArgs) {
				// the stream is live on the client side: what the node sends on it reaches the listener
				w.jl(&journal.Ev{K: journal.KNote, M: m.id, Vb: 0, S: "op-stream-event-at-listener"})
			}, func(models.DcpStreamEndContext) {}, map[uint32]string{}, tracing.NewTracerComponent())
			off := &models.Offset{SnapshotMarker: &models.SnapshotMarker{}, LatestSeqNo: ^uint64(0)}
			return res(m.client.OpenStream(0, map[uint32]string{}, off, s.obs), "")
		}
	case "CloseStream":
		deadline = 60 * time.Second
		f = func() string { return res(m.client.CloseStream(0), "") }
	case "GetVBucketSeqNos":
		deadline = 90 * time.Second // collection ids first (30 s), then the per-node queries (60 s)
		f = func() string {
			mp, err := m.client.GetVBucketSeqNos(false)
			if err != nil {
				return res(err, "")
			}
			var out []string
			for vb, sq := range mp.ToMap() {
				out = append(out, fmt.Sprintf("%d=%d", vb, sq))
			}
			sort.Strings(out)
			return res(nil, fmt.Sprint(out))
		}
	case "GetCollectionIDs":
		deadline = 30 * time.Second
		f = func() string {
			ids, err := m.client.GetCollectionIDs("s1", []string{"c1"})
			return res(err, fmt.Sprint(ids))
		}
	case "MetaSave":
		deadline = c.Checkpoint.Timeout
		f = func() string {
			md := couchbase.NewCBMetadata(m.client, c)
			st := map[uint16]*models.CheckpointDocument{}
			dirty := map[uint16]bool{}
			for vb := 0; vb < w.cfg.NVb; vb++ {
				d := models.NewEmptyCheckpointDocument("uuid-src")
				d.Checkpoint.SeqNo = uint64(vb + 1)
				st[uint16(vb)], dirty[uint16(vb)] = d, true
			}
			return res(md.Save(st, dirty, "uuid-src"), "")
		}
	case "MetaLoad":
		deadline = 5 * time.Second
		f = func() string {
			md := couchbase.NewCBMetadata(m.client, c)
			var vbs []uint16
			for vb := 0; vb < w.cfg.NVb; vb++ {
				vbs = append(vbs, uint16(vb))
			}
			st, exist, err := md.Load(vbs, "uuid-src")
			if err != nil {
				return res(err, "")
			}
			return res(nil, fmt.Sprint(exist, st.Count()))
		}
	case "MetaClear":
		deadline = c.Checkpoint.Timeout
		f = func() string {
			md := couchbase.NewCBMetadata(m.client, c)
			return res(md.Clear([]uint16{0, 1}), "")
		}
	}
	s.callN++
	id := fmt.Sprintf("op%d", s.callN)
	tst := ""
	if underTest {
		tst = s.behaviour
		s.callT, s.deadline = time.Duration(w.now()), deadline
		s.seen, s.handled = 0, false
		s.counted, s.perKey = nil, nil
	}
	if underTest && name == "MetaLoad" && s.behaviour != "prompt" {
		// Load reports a failed read by terminating the process
		w.jl(&journal.Ev{K: journal.KExpect, Vb: -1, S: ""})
	}
	w.jl(&journal.Ev{K: journal.KCall, M: m.id, Vb: -1, S: "op:" + name, ID: id, I: int64(deadline), S2: tst})
	go func() {
		r := f()
		w.jl(&journal.Ev{K: journal.KRet, M: m.id, Vb: -1, S: "op:" + name, ID: id, S2: r})
		w.mu.Lock()
		if underTest || s.tested {
			s.state = "done"
		} else {
			s.state = "idle"
		}
		w.mu.Unlock()
		w.poke()
	}()
}

// prerequisites of the op under test, run fault-free first
var opPrereq = map[string][]string{"UpdateDocument": {"CreateDocument"}, "DeleteDocument": {"CreateDocument"}, "UpsertXattrs": {"CreateDocument"},
	"GetXattrs": {"CreateDocument", "UpsertXattrs"}, "Get": {"CreateDocument"}, "CloseStream": {"OpenStream"}, "MetaLoad": {"MetaSave"}, "MetaClear": {"MetaSave"}}

func (s *scOps) isOpRequest(q *Req) bool {
	switch q.pkt.Command {
	case memd.CmdGetClusterConfig:
		return false
	}
	return true
}

func (s *scOps) BeforeStep(w *World) {
	w.mu.Lock()
	ready, state := s.ready, s.state
	w.mu.Unlock()
	if !ready {
		return
	}
	if state == "idle" {
		pre := opPrereq[s.ops[0]]
		if s.opIdx < len(pre) {
			w.mu.Lock()
			s.state = "running"
			w.mu.Unlock()
			s.runOp(w, pre[s.opIdx], false)
			s.opIdx++
			return
		}
		w.mu.Lock()
		s.state, s.tested = "testing", true
		w.mu.Unlock()
		if s.ops[0] == "Ping" && s.behaviour != "prompt" {
			w.mu.Lock()
			switch s.behaviour {
			case "error":
				w.cl.mgmtMode = "error"
			case "never", "drop":
				w.cl.mgmtMode = "silent"
			default:
				w.cl.mgmtMode = "hold"
			}
			w.mu.Unlock()
		}
		s.runOp(w, s.ops[0], true)
		return
	}
	if state == "done" && s.aftIdx < len(s.aft) {
		// what the abandoned request leaves behind must not leak into later operations
		w.mu.Lock()
		s.state = "running"
		w.mu.Unlock()
		s.runOp(w, s.aft[s.aftIdx], false)
		s.aftIdx++
		return
	}
	if state == "done" && w.cfg.MaxSteps > w.step {
		w.cfg.MaxSteps = w.step // the quiesce phase lets the clock run on
	}
	if state != "testing" || s.handled || s.behaviour == "prompt" {
		return
	}
	// the op under test is running: find its target request
	w.mu.Lock()
	var hit *Req
	var cands []*Req
	for _, c := range w.sortedConns() {
		for _, q := range c.queue {
			if s.isOpRequest(q) && !s.counted[q.arr] {
				cands = append(cands, q)
			}
		}
	}
	// canonical order by identity: the library sends the requests of one call in map-iteration order
	sort.Slice(cands, func(i, j int) bool { return cands[i].id < cands[j].id })
	if s.stage > 0 {
		// keep only requests that are the stage-th of their key
		var el []*Req
		for _, q := range cands {
			if s.counted == nil {
				s.counted, s.perKey = map[int]bool{}, map[string]int{}
			}
			s.counted[q.arr] = true
			k := string(q.pkt.Key)
			if s.perKey[k] == s.stage {
				el = append(el, q)
			}
			s.perKey[k]++
		}
		cands = el
	}
	if len(cands) > 0 {
		hit = cands[min(s.target, len(cands)-1)]
	}
	held := w.cl.mgmtHeld
	w.mu.Unlock()
	if s.ops[0] == "Ping" {
		// the mgmt half of the ping carries the behaviour
		switch s.behaviour {
		case "before-deadline", "after-deadline":
			if held == 0 {
				return
			}
			s.handled = true
			off := -time.Millisecond
			if s.behaviour == "after-deadline" {
				off = time.Millisecond
			}
			s.sleepUntil(w, s.callT+s.deadline+off)
			w.fault("mgmt:"+s.behaviour, "")
			w.mu.Lock()
			n := w.cl.mgmtHeld
			w.cl.mgmtHeld = 0
			w.cl.mgmtMode = "ok"
			w.mu.Unlock()
			for i := 0; i < n; i++ {
				w.cl.mgmtRelease <- struct{}{}
			}
		default:
			s.handled = true
			w.fault("mgmt:"+s.behaviour, "")
		}
		return
	}
	if hit == nil {
		return
	}
	s.handled = true
	w.jl(&journal.Ev{K: journal.KNote, Vb: -1, S: "target-request", ID: hit.id, I: int64(hit.arr)})
	due := s.callT + s.deadline
	if s.ops[0] == "GetVBucketSeqNos" {
		due = time.Duration(hit.at) + 60*time.Second
		if hit.pkt.Command == memd.CmdCollectionsGetID {
			due = time.Duration(hit.at) + 30*time.Second
		}
	}
	switch s.behaviour {
	case "error":
		w.release(hit, replyVariant{name: "internal", status: memd.StatusInternalError})
	case "before-deadline":
		w.mu.Lock()
		hit.conn.stalled = true
		w.mu.Unlock()
		s.sleepUntil(w, due-time.Millisecond)
		w.fault("reply-before-deadline", hit.id)
		w.mu.Lock()
		hit.conn.stalled = false
		w.mu.Unlock()
		w.release(hit, normalReply)
	case "after-deadline":
		w.mu.Lock()
		hit.conn.stalled = true
		w.mu.Unlock()
		s.sleepUntil(w, due+time.Millisecond)
		w.fault("reply-after-deadline", hit.id)
		w.mu.Lock()
		hit.conn.stalled = false
		w.mu.Unlock()
		w.release(hit, normalReply)
	case "never":
		w.mu.Lock()
		hit.conn.stalled = true
		hit.conn.silentFor = true
		w.mu.Unlock()
		w.fault("silent", hit.id)
	case "drop":
		w.mu.Lock()
		w.cl.dropConn(hit.conn)
		w.mu.Unlock()
		w.fault("conndrop", hit.id)
	}
}

func (s *scOps) sleepUntil(w *World, t time.Duration) {
	if d := t - time.Duration(w.now()); d > 0 {
		time.Sleep(d)
	}
}

func (s *scOps) HoldClock(w *World) bool         { return false }
func (s *scOps) MayDrop(w *World, c *Conn) bool  { return false }
func (s *scOps) MayStall(w *World, c *Conn) bool { return false }

var _ = gocbcore.ErrTimeout
