package main

import "time"

type propSpec struct {
	level          string
	quickRuns      int
	thoroughRuns   int
	runLimit       time.Duration
	requiredProbes []string
	assumptions    []string
}

var props = map[string]propSpec{
	"C03": {level: "exploration", quickRuns: 2500, thoroughRuns: 60000, runLimit: 30 * time.Second,
		requiredProbes: []string{"kind:mut", "kind:del", "kind:exp", "filter:reserved-prefix", "filter:skipuntil", "partial-prefix-delivered"}},
	"C04": {level: "exploration", quickRuns: 2500, thoroughRuns: 60000, runLimit: 30 * time.Second,
		requiredProbes: []string{"stale-ack", "repeated-ack", "ack-burst", "absorbed-event-tracked", "offsets-api-compared", "seq-gauge-compared"}},
	"C05": {level: "exploration", quickRuns: 2500, thoroughRuns: 60000, runLimit: 30 * time.Second,
		requiredProbes: []string{"ack-during-store-call", "explicit-save", "clean-save-episode", "failed-save-episode", "advanced-by-non-document-event"}},
}
