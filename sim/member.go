package sim

import (
	"fmt"
	"runtime"
	"sort"
	"strconv"
	"strings"
	"time"

	"github.com/asaskevich/EventBus"
	"github.com/couchbase/gocbcore/v10"
	"github.com/couchbase/gocbcore/v10/memd"
	"github.com/gofiber/fiber/v2"

	dcp "github.com/Trendyol/go-dcp"
	"github.com/Trendyol/go-dcp/config"
	"github.com/Trendyol/go-dcp/couchbase"
	"github.com/Trendyol/go-dcp/models"
	"github.com/Trendyol/go-dcp/servicediscovery"

	"verif/journal"
)

// DEvent is a document event handed to the simulated consumer.
type DEvent struct {
	id   string
	vb   int
	seq  uint64
	ctx  *models.ListenerContext
	acks int
	sess int
}

// Member is one go-dcp client instance (real code) plus its simulated consumer.
type Member struct {
	id           int
	w            *World
	cfg          *config.Dcp
	bus          EventBus.Bus
	agent        *gocbcore.Agent
	meta         *gocbcore.Agent
	dagent       *gocbcore.DCPAgent
	client       couchbase.Client
	d            dcp.Dcp
	started      bool
	ready        bool
	closing      bool // Close() called
	lastNotifT   time.Duration
	ackInConsume map[int]uint64
	trackPark    bool // an Ack issued from inside ConsumeEvent; park its next TrackOffset callback
	stopped      bool // Start() returned
	crashed      bool
	sess         int

	events        []*DEvent
	unacked       map[int][]*DEvent // per vb, delivery order, not yet acked
	lastAck       map[int]*DEvent
	parkCh        chan struct{}
	parked        *DEvent
	parkNext      bool
	nEvents       int
	calls         int
	mode          string
	app           *fiber.App
	scraping      bool
	lateScrapes   int
	sd            servicediscovery.ServiceDiscovery
	infoSent      bool
	notifInFlight int
	notifCount    int
	notifAtClose  int
	lastSet       [2]int // last assignment handed to SetInfo
	handovers     int
	phase         string          // open | closing | closed | opening (from the lifecycle callbacks)
	hookScrape    map[string]bool // lifecycle callbacks inside which the application scrapes (C16)
}

func (m *Member) tag(role string) string { return fmt.Sprintf("m%d%s", m.id, role) }

// ---- consumer (models.Consumer) ----

func eventFields(e any) (kind string, vb int, seq uint64, key []byte, off *models.Offset, a map[string]string, val []byte) {
	a = map[string]string{}
	switch v := e.(type) {
	case models.DcpMutation:
		kind, vb, seq, key, off, val = "mut", int(v.VbID), v.SeqNo, v.Key, v.Offset, v.Value
		a["cas"] = strconv.FormatUint(v.Cas, 10)
		a["rev"] = strconv.FormatUint(v.RevNo, 10)
		a["flags"] = strconv.FormatUint(uint64(v.Flags), 10)
		a["expiry"] = strconv.FormatUint(uint64(v.Expiry), 10)
		a["dt"] = strconv.Itoa(int(v.Datatype))
		a["coll"] = v.CollectionName
		a["cid"] = strconv.FormatUint(uint64(v.CollectionID), 10)
		a["etime"] = strconv.FormatInt(v.EventTime.Unix(), 10)
		a["etimens"] = strconv.Itoa(v.EventTime.Nanosecond())
	case models.DcpDeletion:
		kind, vb, seq, key, off, val = "del", int(v.VbID), v.SeqNo, v.Key, v.Offset, v.Value
		a["cas"] = strconv.FormatUint(v.Cas, 10)
		a["rev"] = strconv.FormatUint(v.RevNo, 10)
		a["dt"] = strconv.Itoa(int(v.Datatype))
		a["coll"] = v.CollectionName
		a["cid"] = strconv.FormatUint(uint64(v.CollectionID), 10)
		a["etime"] = strconv.FormatInt(v.EventTime.Unix(), 10)
		a["etimens"] = strconv.Itoa(v.EventTime.Nanosecond())
	case models.DcpExpiration:
		kind, vb, seq, key, off = "exp", int(v.VbID), v.SeqNo, v.Key, v.Offset
		a["cas"] = strconv.FormatUint(v.Cas, 10)
		a["rev"] = strconv.FormatUint(v.RevNo, 10)
		a["coll"] = v.CollectionName
		a["cid"] = strconv.FormatUint(uint64(v.CollectionID), 10)
		a["etime"] = strconv.FormatInt(v.EventTime.Unix(), 10)
		a["etimens"] = strconv.Itoa(v.EventTime.Nanosecond())
	default:
		kind, vb = fmt.Sprintf("other:%T", e), -1
	}
	return
}

func jOff(o *models.Offset) *journal.Off {
	if o == nil {
		return nil
	}
	out := &journal.Off{UUID: uint64(o.VbUUID), Seq: o.SeqNo, Latest: o.LatestSeqNo}
	if o.SnapshotMarker != nil {
		out.Start, out.End = o.StartSeqNo, o.EndSeqNo
	} else {
		out.Start, out.End = ^uint64(0), ^uint64(0) // no snapshot attached at all
	}
	return out
}

func (m *Member) ConsumeEvent(ctx *models.ListenerContext) {
	w := m.w
	if m.crashed {
		w.note("zombie consume m%d", m.id)
		return
	}
	kind, vb, seq, key, off, a, val := eventFields(ctx.Event)
	w.mu.Lock()
	m.nEvents++
	ev := &DEvent{id: fmt.Sprintf("e%d.%d", m.id, m.nEvents), vb: vb, seq: seq, ctx: ctx, sess: m.sess}
	m.events = append(m.events, ev)
	m.unacked[vb] = append(m.unacked[vb], ev)
	mode := m.mode
	park := m.parkNext
	m.parkNext = false
	if park {
		m.parked = ev
	}
	w.mu.Unlock()
	w.jl(&journal.Ev{K: journal.KConsume, M: m.id, Vb: vb, Seq: seq, S: kind, Key: key, Off: jOff(off), ID: ev.id, A: a, Raw: val, B: m.closing, I: int64(m.sess)})
	if park {
		w.poke()
		<-m.parkCh
	}
	switch mode {
	case "immediate":
		m.setAckInConsume(vb, true)
		m.ack(ev)
		m.setAckInConsume(vb, false)
	case "deferred-commit":
		// a listener that flushes what it acknowledged earlier while the current event is still with a worker
		w.jl(&journal.Ev{K: journal.KCall, M: m.id, Vb: -1, S: "CommitInside", ID: ev.id})
		ctx.Commit()
		w.jl(&journal.Ev{K: journal.KRet, M: m.id, Vb: -1, S: "CommitInside", ID: ev.id})
	case "immediate-commit":
		m.setAckInConsume(vb, true)
		m.ack(ev)
		m.setAckInConsume(vb, false)
		w.jl(&journal.Ev{K: journal.KCall, M: m.id, Vb: -1, S: "CommitInside", ID: ev.id})
		ctx.Commit()
		w.jl(&journal.Ev{K: journal.KRet, M: m.id, Vb: -1, S: "CommitInside", ID: ev.id})
	}
	w.jl(&journal.Ev{K: journal.KConsEnd, M: m.id, Vb: vb, Seq: seq, ID: ev.id})
	w.poke()
}

// setAckInConsume notes which goroutine acknowledges from inside ConsumeEvent (only that one may be parked in its
// TrackOffset callback: the scheduler's own goroutine and its helpers issue acknowledgements, too).
func (m *Member) setAckInConsume(vb int, on bool) {
	m.w.mu.Lock()
	if m.ackInConsume == nil {
		m.ackInConsume = map[int]uint64{}
	}
	if on {
		m.ackInConsume[vb] = curGoroutineID()
	} else {
		delete(m.ackInConsume, vb)
	}
	m.w.mu.Unlock()
}

func curGoroutineID() uint64 {
	var buf [64]byte
	n := runtime.Stack(buf[:], false)
	f := strings.Fields(string(buf[:n])) // "goroutine 123 [running]:"
	if len(f) < 2 {
		return 0
	}
	id, _ := strconv.ParseUint(f[1], 10, 64)
	return id
}

// ack invokes the event's Ack (any goroutine; acks of one vBucket are issued one at a time).
func (m *Member) ack(ev *DEvent) {
	w := m.w
	w.mu.Lock()
	ev.acks++
	lst := m.unacked[ev.vb]
	for i, x := range lst {
		if x == ev {
			m.unacked[ev.vb] = append(lst[:i:i], lst[i+1:]...)
			break
		}
	}
	if la := m.lastAck[ev.vb]; la == nil || la.seq <= ev.seq {
		m.lastAck[ev.vb] = ev
	}
	w.mu.Unlock()
	_, _, _, _, offNow, _, _ := eventFields(ev.ctx.Event) // the offset the held event carries now
	w.jl(&journal.Ev{K: journal.KAck, M: m.id, Vb: ev.vb, Seq: ev.seq, ID: ev.id, I: int64(ev.sess), B: ev.sess != m.sess, Off: jOff(offNow)})
	ev.ctx.Ack()
	w.jl(&journal.Ev{K: journal.KAckEnd, M: m.id, Vb: ev.vb, Seq: ev.seq, ID: ev.id})
}

func (m *Member) TrackOffset(vbID uint16, o *models.Offset) {
	if m.crashed {
		return
	}
	m.w.jl(&journal.Ev{K: journal.KTrack, M: m.id, Vb: int(vbID), Off: jOff(o)})
	m.w.mu.Lock()
	park := m.trackPark && m.ackInConsume[int(vbID)] != 0 && m.ackInConsume[int(vbID)] == curGoroutineID()
	if park {
		m.trackPark = false
	}
	m.w.mu.Unlock()
	if park {
		// a slow TrackOffset callback: the acknowledgement stays in the middle of setOffset while other goroutines run
		m.w.yieldHook("consumer.trackoffset")
	}
}

// ---- lifecycle callbacks (models.EventHandler) ----

type handler struct{ m *Member }

func (h handler) ev(name string) {
	if h.m.crashed {
		return
	}
	h.m.w.jl(&journal.Ev{K: journal.KHandler, M: h.m.id, Vb: -1, S: name})
	h.m.w.mu.Lock()
	switch name {
	case "BeforeStreamStart":
		h.m.sess++
		h.m.phase = "opening"
	case "AfterStreamStart":
		h.m.phase = "open"
	case "BeforeStreamStop":
		h.m.phase = "closing"
	case "AfterStreamStop":
		h.m.phase = "closed"
	}
	hook := h.m.hookScrape[name] && h.m.d != nil && !h.m.scraping
	if hook {
		h.m.scraping = true
	}
	h.m.w.mu.Unlock()
	if hook {
		defer func() { h.m.w.mu.Lock(); h.m.scraping = false; h.m.w.mu.Unlock() }()
		h.m.w.probe("scrape-inside-callback:" + name)
		id := fmt.Sprintf("hs%d.%s", h.m.id, name)
		h.m.w.jl(&journal.Ev{K: journal.KCall, M: h.m.id, Vb: -1, S: "scrape", ID: id, S2: "inside " + name})
		res := h.m.collect()
		h.m.w.jl(&journal.Ev{K: journal.KRet, M: h.m.id, Vb: -1, S: "scrape", ID: id, S2: res})
	}
}
func (h handler) BeforeRebalanceStart() { h.ev("BeforeRebalanceStart") }
func (h handler) AfterRebalanceStart()  { h.ev("AfterRebalanceStart") }
func (h handler) BeforeRebalanceEnd()   { h.ev("BeforeRebalanceEnd") }
func (h handler) AfterRebalanceEnd()    { h.ev("AfterRebalanceEnd") }
func (h handler) BeforeStreamStart()    { h.ev("BeforeStreamStart") }
func (h handler) AfterStreamStart()     { h.ev("AfterStreamStart") }
func (h handler) BeforeStreamStop()     { h.ev("BeforeStreamStop") }
func (h handler) AfterStreamStop()      { h.ev("AfterStreamStop") }

// ---- construction ----

func (w *World) security() gocbcore.SecurityConfig {
	return gocbcore.SecurityConfig{
		Auth:           gocbcore.PasswordAuthProvider{Username: "u", Password: "p"},
		AuthMechanisms: []gocbcore.AuthMechanism{gocbcore.PlainAuthMechanism},
	}
}

func (m *Member) createAgent(role, bucket string, maxQueue int, bufSize uint, timeout time.Duration) *gocbcore.Agent {
	a, err := gocbcore.CreateAgent(&gocbcore.AgentConfig{
		BucketName:           bucket,
		SeedConfig:           gocbcore.SeedConfig{MemdAddrs: []string{m.tag(role) + ".n0:11210"}},
		SecurityConfig:       m.w.security(),
		CompressionConfig:    gocbcore.CompressionConfig{Enabled: true},
		IoConfig:             gocbcore.IoConfig{UseCollections: true},
		KVConfig:             gocbcore.KVConfig{PoolSize: 1, ConnectionBufferSize: bufSize, MaxQueueSize: maxQueue},
		DefaultRetryStrategy: gocbcore.NewBestEffortRetryStrategy(nil),
		ConfigPollerConfig:   gocbcore.ConfigPollerConfig{CccpPollPeriod: m.w.cfg.CccpPoll, CccpMaxWait: m.w.cfg.CccpPoll},
	})
	if err != nil {
		fatalf("create agent: %v", err)
	}
	ch := make(chan error, 1)
	_, err = a.WaitUntilReady(time.Now().Add(timeout), gocbcore.WaitUntilReadyOptions{
		RetryStrategy: gocbcore.NewBestEffortRetryStrategy(nil), ServiceTypes: []gocbcore.ServiceType{gocbcore.MemdService},
	}, func(_ *gocbcore.WaitUntilReadyResult, err error) { ch <- err })
	if err != nil {
		fatalf("agent wait: %v", err)
	}
	if err := <-ch; err != nil {
		fatalf("agent not ready: %v", err)
	}
	return a
}

func (m *Member) createDcpAgent() *gocbcore.DCPAgent {
	c := m.cfg
	// go-dcp's DCP agent learns cluster-map changes from the streaming mgmt endpoint (no CCCP poller). The
	// simulated mgmt endpoint can serve that stream (http.go), but net/http's transport made runs diverge, so the
	// simulated DCP agent is given the CCCP poller instead: same ConfigSnapshot content for go-dcp's config watch,
	// delivered by GET_CLUSTER_CONFIG every CccpPoll.
	seeds := gocbcore.SeedConfig{MemdAddrs: []string{m.tag("d") + ".n0:11210"}}
	a, err := gocbcore.CreateDcpAgent(&gocbcore.DCPAgentConfig{
		BucketName:         c.BucketName,
		SeedConfig:         seeds,
		EnableCCCPPoller:   true,
		SecurityConfig:     m.w.security(),
		CompressionConfig:  gocbcore.CompressionConfig{Enabled: true},
		DCPConfig:          gocbcore.DCPConfig{BufferSize: 16 << 20, UseExpiryOpcode: m.w.cfg.versionAtLeast(6, 5, 0)},
		IoConfig:           gocbcore.IoConfig{UseCollections: true},
		KVConfig:           gocbcore.KVConfig{ConnectionBufferSize: 1 << 20, MaxQueueSize: c.Dcp.MaxQueueSize},
		ConfigPollerConfig: gocbcore.ConfigPollerConfig{CccpPollPeriod: m.w.cfg.CccpPoll, CccpMaxWait: m.w.cfg.CccpPoll},
	}, fmt.Sprintf("%s_sim%d", c.Dcp.Group.Name, m.id), memd.DcpOpenFlagProducer)
	if err != nil {
		fatalf("create dcp agent: %v", err)
	}
	ch := make(chan error, 1)
	_, err = a.WaitUntilReady(time.Now().Add(c.Dcp.ConnectionTimeout), gocbcore.WaitUntilReadyOptions{
		RetryStrategy: gocbcore.NewBestEffortRetryStrategy(nil),
	}, func(_ *gocbcore.WaitUntilReadyResult, err error) { ch <- err })
	if err != nil {
		fatalf("dcp agent wait: %v", err)
	}
	if err := <-ch; err != nil {
		fatalf("dcp agent not ready: %v", err)
	}
	return a
}

// newMember builds the go-dcp configuration for member id from the scenario configuration.
func (w *World) newMember(id int) *Member {
	sc := w.cfg
	c := &config.Dcp{BucketName: sc.Bucket, Hosts: []string{"sim:8091"}, Username: "u", Password: "p"}
	c.Dcp.Group.Name = sc.Group
	c.Dcp.Group.Membership.Type = sc.Membership
	c.Dcp.Group.Membership.MemberNumber = sc.MemberNumber
	c.Dcp.Group.Membership.TotalMembers = sc.TotalMembers
	c.Dcp.Group.Membership.RebalanceDelay = sc.RebalanceDelay
	c.Dcp.Group.Membership.Config = sc.MembershipConfig
	c.Dcp.Mode = config.DcpMode(sc.DcpMode)
	c.RollbackMitigation.Disabled = !sc.RM
	c.RollbackMitigation.Interval = sc.RMInterval
	c.RollbackMitigation.ConfigWatchInterval = sc.RMConfigWatch
	c.API.Disabled = true
	c.HealthCheck.Disabled = !sc.HealthCheck
	c.HealthCheck.Interval = sc.HealthInterval
	c.HealthCheck.Timeout = sc.HealthTimeout
	c.Checkpoint.Type = sc.CkptType
	c.Checkpoint.AutoReset = sc.AutoReset
	c.Checkpoint.Interval = sc.CkptInterval
	c.Checkpoint.Timeout = sc.CkptTimeout
	c.Metadata.Type = sc.Metadata
	c.Metadata.ReadOnly = sc.ReadOnly
	c.Metadata.Config = map[string]string{}
	if sc.Metadata == "file" {
		c.Metadata.Config["fileName"] = fmt.Sprintf("/simdisk/%s.json#m%d", sc.Group, id)
	}
	if sc.MetaBucket != "" && sc.MetaBucket != sc.Bucket {
		c.Metadata.Config["bucket"] = sc.MetaBucket
	}
	c.CollectionNames = sc.CollectionNames
	c.ScopeName = sc.ScopeName
	c.Debug = true
	if sc.SkipUntilSec != 0 && sc.SkipUntil {
		t := time.Unix(sc.SkipUntilSec, 0)
		c.Dcp.Listener.SkipUntil = &t
	}
	c.ApplyDefaults()
	m := &Member{id: id, w: w, cfg: c, unacked: map[int][]*DEvent{}, lastAck: map[int]*DEvent{}, parkCh: make(chan struct{}), mode: sc.ConsumerMode}
	w.scn.TuneMember(w, m)
	return m
}

// start runs the whole start-up of the member in an actor goroutine.
func (m *Member) start() {
	w := m.w
	m.started = true
	a := map[string]string{"membership": m.cfg.Dcp.Group.Membership.Type, "mode": m.mode, "group": m.cfg.Dcp.Group.Name}
	w.jl(&journal.Ev{K: journal.KMember, M: m.id, Vb: -1, A: a})
	go func() {
		c := m.cfg
		m.agent = m.createAgent("a", c.BucketName, c.MaxQueueSize, 1<<20, c.ConnectionTimeout)
		m.meta = m.agent
		if c.IsCouchbaseMetadata() {
			if mc := c.GetCouchbaseMetadata(); mc.Bucket != c.BucketName {
				m.meta = m.createAgent("m", mc.Bucket, mc.MaxQueueSize, 1<<20, mc.ConnectionTimeout)
			}
		}
		m.dagent = m.createDcpAgent()
		m.client = couchbase.VerifNewClient(c, m.agent, m.meta, m.dagent)
		m.bus = &jbus{Bus: EventBus.New(), m: m}
		v := w.cfg.Version
		m.d = dcp.VerifNewDcp(c, m.client, m, &couchbase.Version{Major: v[0], Minor: v[1], Patch: v[2]},
			&couchbase.BucketInfo{BucketType: w.cfg.BucketType, StorageBackend: "couchstore"}, m.bus)
		m.d.SetEventHandler(handler{m})
		w.scn.BeforeStart(w, m)
		go func() {
			w.jl(&journal.Ev{K: journal.KCall, M: m.id, Vb: -1, S: "Start"})
			m.d.Start()
			w.mu.Lock()
			m.stopped = true
			w.mu.Unlock()
			w.jl(&journal.Ev{K: journal.KRet, M: m.id, Vb: -1, S: "Start"})
			w.poke()
		}()
		<-m.d.WaitUntilReady()
		w.mu.Lock()
		m.ready = true
		w.mu.Unlock()
		w.jl(&journal.Ev{K: journal.KReady, M: m.id, Vb: -1})
		w.poke()
	}()
}

// call runs a blocking library call in an actor goroutine and journals begin/return.
func (m *Member) call(name string, f func() string) {
	w := m.w
	w.mu.Lock()
	m.calls++
	id := fmt.Sprintf("c%d.%d", m.id, m.calls)
	w.mu.Unlock()
	w.jl(&journal.Ev{K: journal.KCall, M: m.id, Vb: -1, S: name, ID: id})
	go func() {
		res := f()
		w.jl(&journal.Ev{K: journal.KRet, M: m.id, Vb: -1, S: name, ID: id, S2: res})
		w.poke()
	}()
}

// crash: the member's process dies. Its connections go silent for good, its dial tags are refused,
// its consumer and handles go dead; only the cluster's documents and the simulated disk survive.
func (m *Member) crash() {
	w := m.w
	w.mu.Lock()
	m.crashed = true
	for _, role := range []string{"a", "m", "d"} {
		w.cl.deadTags[m.tag(role)] = true
	}
	for _, c := range w.cl.conns {
		if c.member == m.id {
			c.zombie = true
			if w.cl.zombieNotFound {
				for _, q := range c.queue {
					if q.pkt.Command == memd.CmdGet || q.pkt.Command == memd.CmdSubDocMultiLookup {
						go c.write(&memd.Packet{Magic: memd.CmdMagicRes, Command: q.pkt.Command, Opaque: q.pkt.Opaque, Status: memd.StatusKeyNotFound})
					}
				}
			}
			c.queue = nil
		}
	}
	w.mu.Unlock()
	w.jl(&journal.Ev{K: journal.KCrash, M: m.id, Vb: -1})
	w.fault("crash", fmt.Sprintf("m%d", m.id))
}

// actions lists the member-side scheduler actions: consumer acknowledgements, unparking, lifecycle.
func (m *Member) actions() []Action {
	w := m.w
	cfg := w.cfg
	var acts []Action
	if m.crashed || !m.started {
		return nil
	}
	w.mu.Lock()
	parked := m.parked
	vbs := make([]int, 0, len(m.unacked))
	for vb, l := range m.unacked {
		if len(l) > 0 {
			vbs = append(vbs, vb)
		}
	}
	sort.Ints(vbs)
	type cand struct {
		ev   *DEvent
		kind string
	}
	var cands []cand
	if strings.HasPrefix(m.mode, "deferred") {
		for _, vb := range vbs {
			l := m.unacked[vb]
			if parked != nil && parked.vb == vb || m.ackInConsume[vb] != 0 {
				// acks of one vBucket are issued one at a time, as the library's call structure does:
				// nothing is acknowledged for a vBucket while its ConsumeEvent is still running
				continue
			}
			cands = append(cands, cand{l[0], "next"})
			if len(l) > 1 {
				cands = append(cands, cand{l[len(l)-1], "latest"})
			}
			if len(l) > 2 {
				cands = append(cands, cand{l[len(l)/2], "mid"})
			}
		}
	}
	var stale []cand
	if cfg.W.AckStale > 0 && !w.quiet {
		lvbs := make([]int, 0, len(m.lastAck))
		for vb := range m.lastAck {
			lvbs = append(lvbs, vb)
		}
		sort.Ints(lvbs)
		for _, vb := range lvbs {
			if parked != nil && parked.vb == vb || m.ackInConsume[vb] != 0 {
				continue
			}
			stale = append(stale, cand{m.lastAck[vb], "dup"})
			// an older, already acknowledged event of the same vb
			for _, e := range m.events {
				if e.vb == vb && e.acks > 0 && e.seq < m.lastAck[vb].seq {
					stale = append(stale, cand{e, "old"})
					break
				}
			}
		}
	}
	w.mu.Unlock()
	for _, c := range cands {
		c := c
		wt := cfg.W.Ack
		if c.kind != "next" {
			wt = cfg.W.AckSkip
		}
		if w.quiet {
			if !cfg.QuiesceAck || c.kind != "latest" && !(c.kind == "next" && len(m.unacked[c.ev.vb]) == 1) {
				wt = 0
			}
		}
		acts = append(acts, Action{ID: fmt.Sprintf("ack|%s|m%d|vb%d|%d", c.kind, m.id, c.ev.vb, c.ev.seq), W: wt, Do: func() { m.ack(c.ev) }})
	}
	for _, c := range stale {
		c := c
		acts = append(acts, Action{ID: fmt.Sprintf("ack|%s|m%d|vb%d|%d", c.kind, m.id, c.ev.vb, c.ev.seq), W: cfg.W.AckStale, Do: func() { m.ack(c.ev) }})
	}
	if parked != nil {
		wt := cfg.W.Unpark
		if w.quiet {
			wt = 100
		}
		acts = append(acts, Action{ID: fmt.Sprintf("unpark|m%d", m.id), W: wt, Do: func() {
			w.mu.Lock()
			m.parked = nil
			w.mu.Unlock()
			m.parkCh <- struct{}{}
		}})
	} else if cfg.W.Park > 0 && !w.quiet && !m.parkNext && m.ready && !m.closing {
		acts = append(acts, Action{ID: fmt.Sprintf("parknext|m%d", m.id), W: cfg.W.Park, Do: func() {
			w.mu.Lock()
			m.parkNext = true
			w.mu.Unlock()
			w.fault("slowconsumer", fmt.Sprintf("m%d", m.id))
		}})
	}
	if !w.quiet {
		acts = append(acts, w.scn.MemberActions(w, m)...)
	}
	return acts
}
