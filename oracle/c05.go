package oracle

import (
	"encoding/json"
	"fmt"
	"sort"
	"strconv"
	"strings"

	"verif/journal"
)

// C05 — settled progress becomes durable; a failed save loses nothing; no change, no write.
//
// Reference model per member: pos[vb] (furthest settled position, from the position reports and their
// causes), need[vb] (advanced by an Ack or a non-document stream event since the value was last
// stored), stored[vb] (what the metadata store holds). Saves are seen as explicit calls (Commit, the
// one in Close) with begin/return, and on the wire as episodes of checkpoint-key write chains.
func init() { checkers["C05"] = checkC05 }

type c05episode struct {
	startN   int
	startT   int64
	posAt    map[int]uint64
	needAt   map[int]bool
	chains   map[string]string // key -> state: upsert1, set, upsert2, done, failed
	faulted  bool
	explicit bool
	endT     int64
	endN     int
}

type c05member struct {
	pos             map[int]uint64
	need            map[int]bool
	needSince       map[int]int
	ackSince        map[int]bool // an Ack contributed to the need (otherwise only non-document stream events did)
	lastAckN        int
	needPos         map[int]uint64 // position at the last dirtying cause
	ackPos          map[int]uint64 // highest position flagged by an Ack
	nondocN         map[int]int    // journal number of the last flagging non-document event
	inAck           map[int]bool
	pendTrack       map[int]*journal.Ev // position reported inside an Ack() that has not returned yet
	sid             map[int]string
	absorbSys       map[int]map[uint64]bool // seqnos of emitted non-document events per vb
	absorbInt       map[int]map[uint64]bool // internal-key document events
	ep              *c05episode
	prevEp          *c05episode
	prevOK          bool
	episodes        int
	lastActN        int // event number of the last ack invocation / dirtying absorb
	sessionEp       int
	explicit        map[string]*c05episode // call id -> snapshot
	dead            bool
	closing         bool
	needAtClose     map[int]uint64
	atClose         map[int][3]uint64
	lastAckNAtClose int
	closeN          int
	faultSince      int      // number of faults seen
	windows         [][2]int // journal ranges during which a save of this member was in flight
}

// signature classifies how the unpersisted position came about (known-findings match on it).
func (mm *c05member) signature(vb int, stored uint64, have bool) string {
	switch {
	case (!mm.ackSince[vb] || have && stored >= mm.ackPos[vb]) && mm.nondocN[vb] > 0 && mm.lastAckN < mm.nondocN[vb]:
		// advanced only by system / seqno-advanced events and no Ack by this member since: nothing raises the any-dirty flag
		return "advanced-only-by-non-document-events-no-ack-since"
	case mm.duringSave(mm.needSince[vb]):
		return "settled-while-a-save-was-in-flight"
	}
	return "plain"
}

// duringSave reports whether journal event n fell between the begin and the end of an earlier save.
func (mm *c05member) duringSave(n int) bool {
	for _, w := range mm.windows {
		if n > w[0] && n < w[1] {
			return true
		}
	}
	for _, x := range mm.explicit {
		if n > x.startN {
			return true
		}
	}
	if mm.ep != nil && n > mm.ep.startN {
		return true
	}
	return false
}

func parseFileStore(raw []byte) map[int]*journal.Off {
	var m map[string]struct {
		Checkpoint *struct {
			Snapshot *struct {
				Start uint64 `json:"startSeqno"`
				End   uint64 `json:"endSeqno"`
			} `json:"snapshot"`
			UUID uint64 `json:"vbuuid"`
			Seq  uint64 `json:"seqno"`
		} `json:"checkpoint"`
	}
	if json.Unmarshal(raw, &m) != nil {
		return nil
	}
	out := map[int]*journal.Off{}
	for k, v := range m {
		vb, err := strconv.Atoi(k)
		if err != nil || v.Checkpoint == nil || v.Checkpoint.Snapshot == nil {
			continue
		}
		out[vb] = &journal.Off{UUID: v.Checkpoint.UUID, Seq: v.Checkpoint.Seq, Start: v.Checkpoint.Snapshot.Start, End: v.Checkpoint.Snapshot.End}
	}
	return out
}

// parseCkptPayload decodes a checkpoint xattr payload.
func parseCkptPayload(key, payload []byte) (*journal.Off, int, bool) {
	m := parseFileStore([]byte(`{"0":` + string(payload) + `}`))
	o, ok := m[0]
	return o, ckptVb(key), ok && len(payload) > 0
}

func isCkptKey(k []byte) bool {
	s := string(k)
	return strings.HasPrefix(s, connPrefix) && strings.Contains(s, ":checkpoint:")
}

func ckptVb(k []byte) int {
	s := string(k)
	i := strings.LastIndex(s, ":")
	vb, err := strconv.Atoi(s[i+1:])
	if err != nil {
		return -1
	}
	return vb
}

func checkC05(run *Run, res *Result) {
	cfg := &run.Cfg
	stored := map[int]uint64{} // group-wide store content (seqno per vb)
	haveStored := map[int]bool{}
	ms := map[int]*c05member{}
	get := func(m int) *c05member {
		if ms[m] == nil {
			ms[m] = &c05member{pos: map[int]uint64{}, need: map[int]bool{}, needSince: map[int]int{}, ackSince: map[int]bool{}, needPos: map[int]uint64{}, ackPos: map[int]uint64{}, nondocN: map[int]int{}, inAck: map[int]bool{}, pendTrack: map[int]*journal.Ev{}, sid: map[int]string{},
				absorbSys: map[int]map[uint64]bool{}, absorbInt: map[int]map[uint64]bool{}, explicit: map[string]*c05episode{}}
		}
		return ms[m]
	}
	faults := 0
	reqEp := map[int64]*c05episode{}
	snapshot := func(mm *c05member, n int, t int64) *c05episode {
		ep := &c05episode{startN: n, startT: t, posAt: map[int]uint64{}, needAt: map[int]bool{}, chains: map[string]string{}}
		for vb, p := range mm.needPos {
			ep.posAt[vb] = p // the position of the last cause that flags the vBucket for saving
		}
		for vb, b := range mm.need {
			if b {
				ep.needAt[vb] = true
			}
		}
		return ep
	}
	// settle: whatever the store now holds at or beyond the position of the last dirtying cause no longer needs storing
	settle := func() {
		for _, mm := range ms {
			for vb, b := range mm.need {
				if b && haveStored[vb] && stored[vb] >= mm.needPos[vb] {
					mm.need[vb] = false
					mm.ackSince[vb] = false
				}
			}
		}
	}
	// judge a finished clean save: every vb that needed storing at its begin is stored at the position it had then
	judge := func(mm *c05member, m int, ep *c05episode, n int, what string) {
		if faults > 0 {
			// Once a fault has been injected, overlapping failed / timed-out / retried saves make "this save
			// began after that position was settled" ambiguous on the wire; from then on "nothing is
			// forgotten" is judged by R4 (everything flagged is durable once faults have stopped).
			return
		}
		var vbs []int
		for vb := range ep.needAt {
			vbs = append(vbs, vb)
		}
		sort.Ints(vbs)
		for _, vb := range vbs {
			want := ep.posAt[vb]
			if !haveStored[vb] || stored[vb] < want {
				sig := mm.signature(vb, stored[vb], haveStored[vb])
				res.violate("C05", "R1-unpersisted-after-successful-save", n, sig,
					"member %d vb %d: %s completed without any fault, but the store holds seqno %d (present=%v) while position %d had been settled before the save began (settled at event #%d)",
					m, vb, what, stored[vb], haveStored[vb], want, mm.needSince[vb])
			} else if mm.needSince[vb] < ep.startN {
				// stored what had been settled before the save began, and nothing dirtying happened since
				mm.need[vb] = false
				mm.ackSince[vb] = false
			}
		}
	}
	// settle records a reported position as settled at event n (the report itself for absorbed stream events, the
	// return of Ack() for acknowledgements).
	// the stored checkpoint equals the position settled: the seqno together with the snapshot range and vbUUID the
	// position was reported with (any session: a re-delivered event may carry another range)
	type vbSeq struct {
		m, vb int
		seq   uint64
	}
	settledAs := map[vbKey]map[tuple]bool{} // what the writing member itself reported (a restarted member may store a reset position)
	settledSeq := map[vbSeq]bool{}
	checkStoredAs := func(e *journal.Ev, vb int, o *journal.Off) {
		if e.M <= 0 || !settledSeq[vbSeq{e.M, vb, o.Seq}] || settledAs[vbKey{e.M, vb}][offTuple(o)] {
			return
		}
		res.violate("C05", "R2-stored-position-altered", e.N, fmt.Sprintf("vb=%d", vb),
			"member %d vb %d: the checkpoint stored for seqno %d is %s; that position was settled with another snapshot range / vbUUID", e.M, vb, o.Seq, offTuple(o))
	}
	settlePos := func(mm *c05member, e *journal.Ev, n int) {
		viaAck := mm.inAck[e.Vb]
		dirties := false
		switch {
		case viaAck:
			dirties = true
		case mm.absorbSys[e.Vb][e.Off.Seq]:
			dirties = true
			mm.lastActN = n
			res.probe("advanced-by-non-document-event")
		}
		if e.Off.Seq > mm.pos[e.Vb] {
			mm.pos[e.Vb] = e.Off.Seq
		}
		if dirties {
			if !mm.need[e.Vb] {
				mm.ackSince[e.Vb] = false
			}
			mm.need[e.Vb] = true
			mm.needSince[e.Vb] = n
			mm.needPos[e.Vb] = mm.pos[e.Vb]
			if viaAck {
				mm.ackSince[e.Vb] = true
				if mm.pos[e.Vb] > mm.ackPos[e.Vb] {
					mm.ackPos[e.Vb] = mm.pos[e.Vb]
				}
			} else {
				mm.nondocN[e.Vb] = n
			}
		}
	}
	for i := range run.Evs {
		e := &run.Evs[i]
		switch e.K {
		case journal.KFault:
			faults++
			for _, mm := range ms {
				if mm.ep != nil {
					mm.ep.faulted = true
				}
				for _, x := range mm.explicit {
					x.faulted = true
				}
			}
			if e.S == "stall" || strings.HasPrefix(e.S, "err:") {
				res.probe("save-fault:" + e.S)
			}
		case journal.KCrash:
			get(e.M).dead = true
		case journal.KHandler:
			mm := get(e.M)
			if e.S == "BeforeStreamStart" {
				mm.pos, mm.need, mm.needSince, mm.ackSince = map[int]uint64{}, map[int]bool{}, map[int]int{}, map[int]bool{}
				mm.sessionEp = 0
				mm.ep, mm.prevEp = nil, nil
			}
		case journal.KSReq:
			if e.S2 == "ok" && e.Off != nil {
				mm := get(e.M)
				mm.sid[e.Vb] = e.ID
				if _, ok := mm.pos[e.Vb]; !ok {
					mm.pos[e.Vb] = e.Off.Seq
				}
				mm.absorbSys[e.Vb], mm.absorbInt[e.Vb] = map[uint64]bool{}, map[uint64]bool{}
			}
		case journal.KEmit:
			mm := get(e.M)
			if mm.sid[e.Vb] != e.ID {
				continue
			}
			if e.S == "seqadv" || strings.HasPrefix(e.S, "sys:") {
				mm.absorbSys[e.Vb][e.Seq] = true
			} else if isDocKind(e.S) && isInternalKey(e.Key) {
				mm.absorbInt[e.Vb][e.Seq] = true
			}
		case journal.KAck:
			mm := get(e.M)
			mm.inAck[e.Vb] = true
			mm.lastActN = e.N
			if mm.ep != nil {
				res.probe("ack-during-store-call")
			}
		case journal.KAckEnd:
			mm := get(e.M)
			if t := mm.pendTrack[e.Vb]; t != nil {
				// the position the acknowledgement reported is settled once Ack() has returned
				delete(mm.pendTrack, e.Vb)
				settlePos(mm, t, e.N)
			}
			// the acknowledgement takes effect (position recorded, marked, flag raised) by the time Ack() returns
			mm.lastActN, mm.lastAckN = e.N, e.N
			mm.inAck[e.Vb] = false
		case journal.KTrack:
			if e.Off == nil {
				continue
			}
			if settledAs[vbKey{e.M, e.Vb}] == nil {
				settledAs[vbKey{e.M, e.Vb}] = map[tuple]bool{}
			}
			settledAs[vbKey{e.M, e.Vb}][offTuple(e.Off)] = true
			settledSeq[vbSeq{e.M, e.Vb, e.Off.Seq}] = true
			mm := get(e.M)
			if mm.dead {
				continue
			}
			if mm.inAck[e.Vb] {
				mm.pendTrack[e.Vb] = e
				continue
			}
			settlePos(mm, e, e.N)
		case journal.KCall:
			mm := get(e.M)
			switch e.S {
			case "Commit", "CommitInside":
				mm.explicit[e.S+e.ID] = snapshot(mm, e.N, e.T)
				res.probe("explicit-save")
			case "Close":
				mm.closing = true
				// what the save performed during Close has to leave stored: every position settled before the call
				mm.needAtClose = map[int]uint64{}
				mm.closeN = e.N
				mm.atClose = map[int][3]uint64{}
				mm.lastAckNAtClose = mm.lastAckN
				for vb, b := range mm.need {
					if b {
						mm.needAtClose[vb] = mm.needPos[vb]
						as := uint64(0)
						if mm.ackSince[vb] {
							as = 1
						}
						mm.atClose[vb] = [3]uint64{as, mm.ackPos[vb], uint64(mm.nondocN[vb])} // how it came about, as of the call
					}
				}
			}
		case journal.KRet:
			mm := get(e.M)
			if e.S == "Start" && mm.closing && !mm.dead && mm.needAtClose != nil && !cfg.Faults && cfg.Metadata != "file" &&
				cfg.ConsumerMode == "deferred" && cfg.CkptType == "auto" && !cfg.ReadOnly && res.DeathKind == "" {
				// graceful shutdown, no fault anywhere in the run, acknowledgements only from outside ConsumeEvent
				for _, vb := range sortedKeys(mm.needAtClose) {
					if want := mm.needAtClose[vb]; !haveStored[vb] || stored[vb] < want {
						sig := "plain"
						if c := mm.atClose[vb]; (c[0] == 0 || haveStored[vb] && stored[vb] >= c[1]) && c[2] > 0 && uint64(mm.lastAckNAtClose) < c[2] {
							sig = "advanced-only-by-non-document-events-no-ack-since"
						}
						res.violate("C05", "R4-never-persisted", e.N, sig,
							"member %d vb %d: position %d was settled before Close() (event #%d), the shutdown has completed and the store holds %d (present=%v): the save performed during Close left acknowledged work unpersisted",
							e.M, vb, want, mm.closeN, stored[vb], haveStored[vb])
					}
				}
				res.probe("shutdown-save-judged")
			}
			if e.S == "Start" {
				mm.dead = true
			}
			if e.S != "Commit" && e.S != "CommitInside" {
				continue
			}
			ep := mm.explicit[e.S+e.ID]
			delete(mm.explicit, e.S+e.ID)
			if ep != nil {
				mm.windows = append(mm.windows, [2]int{ep.startN, e.N})
			}
			if ep == nil || ep.faulted || mm.closing || mm.dead || cfg.ReadOnly {
				continue
			}
			if e.T-ep.startT >= cfg.CkptTimeout {
				continue // slow save: may have timed out
			}
			judge(mm, e.M, ep, e.N, "an explicit save ("+e.S+")")
		case journal.KDisk:
			if (e.S == "write" || e.S == "write-short" || e.S == "chunk" || e.S == "trunc") && strings.HasSuffix(e.S2, ".json") {
				var held []int
				for vb := range stored {
					if haveStored[vb] {
						held = append(held, vb)
					}
					delete(stored, vb)
					delete(haveStored, vb)
				}
				fs := parseFileStore(e.Raw)
				if e.S == "write" && len(fs) > 0 {
					// a completed save stores the position of *every* assigned vBucket that was ever advanced: a
					// whole-state backend that is handed only part of the state silently forgets the rest
					var lost []int
					for _, vb := range held {
						if _, ok := fs[vb]; !ok {
							lost = append(lost, vb)
						}
					}
					if len(lost) > 0 {
						sort.Ints(lost)
						res.violate("C05", "R5-stored-checkpoint-dropped", e.N, "file", "file backend: a completed save rewrote the checkpoint file without the entries of vBuckets %v, whose settled positions it held before", lost)
					}
					res.probe("file-save-completeness-judged")
				}
				for vb, o := range fs {
					stored[vb], haveStored[vb] = o.Seq, true
				}
				if e.S == "write" {
					res.probe("file-store-written")
					for _, vb := range sortedKeys(fs) {
						checkStoredAs(e, vb, fs[vb])
					}
				}
				settle()
			}
		case journal.KKVW:
			if e.Off != nil && e.Vb >= 0 && isCkptKey(e.Key) {
				stored[e.Vb], haveStored[e.Vb] = e.Off.Seq, true
				checkStoredAs(e, e.Vb, e.Off)
				settle()
			}
		case journal.KReq:
			if !isCkptKey(e.Key) || e.S == "CMD_SUBDOCMULTILOOKUP" {
				continue
			}
			mm := get(e.M)
			if mm.dead {
				continue
			}
			key := string(e.Key)
			stt := ""
			if mm.ep != nil {
				stt = mm.ep.chains[key]
			}
			switch {
			case mm.ep != nil && stt == "set-next" && (e.S == "CMD_SET" || e.S == "CMD_ADD"):
				mm.ep.chains[key] = "set"
			case mm.ep != nil && stt == "upsert2-next" && e.S == "CMD_SUBDOCMULTIMUTATION":
				mm.ep.chains[key] = "upsert2"
			case mm.ep != nil && strings.HasPrefix(stt, "retry:"):
				mm.ep.chains[key] = strings.TrimPrefix(stt, "retry:") // gocbcore re-sent the request after a retryable status
			case mm.ep != nil && e.T == mm.ep.startT && stt == "":
				mm.ep.chains[key] = "upsert1" // another vBucket's write of the same save
			default:
				// a new save episode begins
				if mm.ep != nil {
					mm.ep.endT = e.T
					mm.prevEp, mm.prevOK = mm.ep, false // the previous one never completed: it failed (timed out)
					mm.windows = append(mm.windows, [2]int{mm.ep.startN, e.N})
				}
				ep := snapshot(mm, e.N, e.T)
				mm.sessionEp++
				// R3: was there any reason to write? A save that was issued while the previous one was still in
				// flight (it waited for the save lock and so begins at the very instant the previous one ended)
				// was issued when there was unsaved change; only a save issued later counts as "issued when
				// nothing changed". Judged only while no fault has been injected in the run.
				justified := mm.sessionEp == 1 || mm.prevEp == nil || !mm.prevOK || mm.lastActN > mm.prevEp.startN || e.T == mm.prevEp.endT
				if !justified && !cfg.ReadOnly && faults == 0 {
					res.violate("C05", "R3-write-without-change", e.N, "plain",
						"member %d: a save sent checkpoint writes (first key %s) although no Ack was invoked and no position-advancing stream event was absorbed since the previous successful save began (event #%d)",
						e.M, key, mm.prevEp.startN)
				}
				mm.ep = ep
				mm.ep.chains[key] = "upsert1"
			}
			reqEp[e.I] = mm.ep
		case journal.KRsp:
			if !isCkptKey(e.Key) || e.S == "CMD_SUBDOCMULTILOOKUP" {
				continue
			}
			mm := get(e.M)
			ep := reqEp[e.I]
			delete(reqEp, e.I)
			if mm.ep == nil || ep != mm.ep {
				continue // the reply to a request of an abandoned (timed-out) save
			}
			key := string(e.Key)
			switch st := mm.ep.chains[key]; {
			case st == "upsert1" && e.S2 == "0x01":
				mm.ep.chains[key] = "set-next"
			case st == "upsert1" && e.S2 == "ok", st == "upsert2" && e.S2 == "ok":
				mm.ep.chains[key] = "done"
			case st == "set" && e.S2 == "ok":
				mm.ep.chains[key] = "upsert2-next"
			case e.S2 == "0x86" || e.S2 == "0x85":
				mm.ep.chains[key] = "retry:" + st
				mm.ep.faulted = true
			default:
				mm.ep.chains[key] = "failed"
				mm.ep.faulted = true
			}
			all := true
			for _, s := range mm.ep.chains {
				if s != "done" && s != "failed" {
					all = false
				}
			}
			if all {
				ep := mm.ep
				ep.endT, ep.endN = e.T, e.N
				mm.ep = nil
				mm.prevEp, mm.prevOK = ep, !ep.faulted
				mm.windows = append(mm.windows, [2]int{ep.startN, e.N})
				mm.episodes++
				if ep.faulted {
					res.probe("failed-save-episode")
					continue
				}
				if e.T-ep.startT >= cfg.CkptTimeout || mm.closing || cfg.ReadOnly {
					continue
				}
				res.probe("clean-save-episode")
				judge(mm, e.M, ep, e.N, "a save")
			}
		}
	}
	// R4: bounded progress once faults stopped — at the end of the quiesce phase everything that needed
	// storing is stored (automatic checkpointing, member still running).
	if run.Ended && cfg.CkptType == "auto" && !cfg.ReadOnly {
		var mids []int
		for m := range ms {
			mids = append(mids, m)
		}
		sort.Ints(mids)
		for _, m := range mids {
			mm := ms[m]
			if mm.dead || mm.closing {
				continue
			}
			var vbs []int
			for vb, b := range mm.need {
				if b {
					vbs = append(vbs, vb)
				}
			}
			sort.Ints(vbs)
			for _, vb := range vbs {
				if !haveStored[vb] || stored[vb] < mm.needPos[vb] || stored[vb] > mm.pos[vb] {
					sig := mm.signature(vb, stored[vb], haveStored[vb])
					res.violate("C05", "R4-never-persisted", len(run.Evs), sig,
						"member %d vb %d: position %d (settled at event #%d) is still not stored (store holds %d, present=%v) after the quiesce phase of %s with no faults and automatic checkpointing every %s",
						m, vb, mm.pos[vb], mm.needSince[vb], stored[vb], haveStored[vb], fmtDur(cfg.QuiesceBudget), fmtDur(cfg.CkptInterval))
				}
			}
		}
	}
}

func fmtDur(ns int64) string { return fmt.Sprintf("%.3fs", float64(ns)/1e9) }
