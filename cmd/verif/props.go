package main

import "time"

type propSpec struct {
	level          string
	quickRuns      int
	thoroughRuns   int
	runLimit       time.Duration
	requiredProbes []string
	assumptions    []string
	scenarios      []string // worker scenarios that feed this property's checker (default: the property id)
	real, stub     []string // components (default: the whole-client list)
}

var defaultReal = []string{"go-dcp (whole client through dcp.Start): dcp.go stream/* couchbase/{observer,rollback_mitigation,client,metadata,doc_op,async_op,healthcheck}.go metadata/* membership/* api metric helpers wrapper models config",
	"github.com/couchbase/gocbcore/v10 v10.5.2 (dial hooks only)", "github.com/asaskevich/EventBus (mutexes made durable)", "concurrent-swiss-map (Range order from the seed), errgroup, prometheus client, fiber (in-memory requests)"}

var defaultStub = []string{"Couchbase Server (simulated cluster: KV, sub-document, DCP producer, failover table, OBSERVE_SEQNO, collections, CCCP, mgmt ping endpoint)", "HTTP /pools discovery (version/bucket info are scenario parameters)",
	"TCP (in-memory pipes)", "clock (synctest bubble)", "disk for the file backend (simulated, with crash seams and write errors)", "the consumer (simulated: immediate / deferred / committing)", "Go runtime: select order, map iteration, time slice owned by the simulator; collector off",
	"sonic JSON codec runs in its encoding/json fallback under go1.26"}

var componentOverrides = map[string][2][]string{
	"C10": {
		{"couchbase/membership.go (cbMembership: register, heart-beat, monitor, CAS index rewrite) over the real couchbase client wrappers and gocbcore", "servicediscovery/service_discovery.go + model.go (heart-beat loop, monitor loop, SetInfo filter)", "kubernetes/ha_membership.go, membership/membership.go", "stream/leader_election.go OnBecomeLeader", "api (PUT /membership/info, GET /rebalance) and the whole Dcp object in the rebalance scenario", "EventBus"},
		{"Couchbase Server (simulated cluster)", "servicediscovery RPC client and server (simulated Client acting on the peer's ServiceDiscovery the way rpc_server.go's Handler does)", "Kubernetes lease election (simulated; runs the real OnBecomeLeader, and the body of OnBecomeFollower with the rpc dial replaced)", "whole Dcp objects are not started in the two membership scenarios", "clock, TCP, Go runtime coins as everywhere"},
	},
	"C19": {
		{"couchbase/healthcheck.go (NewHealthCheck, Start, Stop, run, performHealthCheck)"},
		{"couchbase.Client (scripted Ping: succeed / fail / slow, decided by the seed)", "clock (synctest bubble)", "Go runtime select order (seeded)"},
	},
	"C20": {
		{"couchbase/doc_op.go, async_op.go, client.go (Ping, GetFailOverLogs, OpenStream, CloseStream, GetVBucketSeqNos, GetCollectionIDs), metadata.go (Save, Load, Clear), observer.go", "github.com/couchbase/gocbcore/v10 v10.5.2 (dial hooks only)"},
		{"Couchbase Server (simulated cluster; per-request scripted behaviour: prompt, error status, reply 1 ms before / after the deadline, silence, connection drop; mgmt HTTP endpoint for the second half of Ping)", "whole Dcp objects are not started in this scenario", "clock, TCP, Go runtime coins as everywhere"},
	},
}

func propOfScenario(sc string) string {
	for p, sp := range props {
		for _, x := range sp.scenarios {
			if x == sc {
				return p
			}
		}
	}
	return sc
}

var props = map[string]propSpec{
	"C03": {scenarios: []string{"C03", "C03", "C08", "C12", "C11"}, level: "exploration", quickRuns: 2500, thoroughRuns: 60000, runLimit: 30 * time.Second,
		requiredProbes: []string{"kind:mut", "kind:del", "kind:exp", "filter:reserved-prefix", "filter:skipuntil", "partial-prefix-delivered", "ack-in-a-later-step-than-delivery"}},
	"C04": {scenarios: []string{"C04", "C04", "C04r", "C12"}, level: "exploration", quickRuns: 2500, thoroughRuns: 60000, runLimit: 30 * time.Second,
		requiredProbes: []string{"stale-ack", "repeated-ack", "ack-burst", "absorbed-event-tracked", "offsets-api-compared", "seq-gauge-compared"}},
	"C05": {level: "exploration", quickRuns: 2500, thoroughRuns: 60000, runLimit: 30 * time.Second,
		requiredProbes: []string{"ack-during-store-call", "explicit-save", "clean-save-episode", "failed-save-episode", "advanced-by-non-document-event", "parked-at:consumer.trackoffset", "shutdown-save-judged"}},
	"C01": {level: "exploration", quickRuns: 2500, thoroughRuns: 60000, runLimit: 30 * time.Second,
		requiredProbes: []string{"checkpoint-write-judged", "crash-with-unacked-delivery", "restart-after-crash-with-unacked-event", "absorbed-event-while-earlier-delivery-unacked"}},
	"C06": {scenarios: []string{"C06", "C06", "C06", "C06", "C15", "C08"}, level: "exploration", quickRuns: 3600, thoroughRuns: 60000, runLimit: 30 * time.Second,
		requiredProbes: []string{"multi-item-snapshot-offset", "ack-of-event-from-older-snapshot", "seqno-advanced-closing-snapshot", "stored-offset-judged", "out-of-snapshot-item-emitted", "stream-request-offset-judged"}},
	"C13": {scenarios: []string{"C13", "C13r"}, level: "exploration", quickRuns: 2500, thoroughRuns: 60000, runLimit: 30 * time.Second,
		requiredProbes: []string{"close:idle", "close:during-delivery", "close:save-in-flight", "shutdown-completed", "close:during-rebalance", "notification-during-shutdown-stream-stop", "close-after-a-failed-save"}},
	"C16": {scenarios: []string{"C16", "C16", "C16r"}, level: "exploration", quickRuns: 2500, thoroughRuns: 60000, runLimit: 30 * time.Second,
		requiredProbes: []string{"scrape-judged", "counter-judged", "scrape-while-closed-or-closing", "scrape-inside-callback"}},
	"C11": {level: "exploration", quickRuns: 2500, thoroughRuns: 50000, runLimit: 30 * time.Second,
		requiredProbes: []string{"reopen-judged", "notification-during-close", "notification-during-delay", "notification-while-reopening", "burst-of-several-notifications", "notification:api-rebalance"}},
	"C02": {level: "exploration", quickRuns: 2500, thoroughRuns: 60000, runLimit: 30 * time.Second,
		requiredProbes: []string{"checkpoint-written", "latest-reset", "read-only-session", "seeded:>=2^63", "seeded:2^53..2^63", "seeded:0"}},
	"C08": {level: "exploration", quickRuns: 2500, thoroughRuns: 60000, runLimit: 30 * time.Second,
		requiredProbes: []string{"rollback-honoured", "rollback:R=F", "rollback:R=0", "rollback:R<F", "event-exactly-at-F", "second-rollback", "re-request-failed", "rollback-on-a-re-open"}},
	"C15": {scenarios: []string{"C15", "C15", "C15", "C12"}, level: "fault_enumeration", quickRuns: 2700, thoroughRuns: 40000, runLimit: 30 * time.Second,
		requiredProbes: []string{"startup-fault:none", "startup-fault:ckpt-above-high", "startup-fault:load-error", "startup-fault:load-silent", "startup-fault:seqnos-error", "startup-fault:flog-error", "startup-fault:sreq-error", "startup-fault:sreq-silent", "startup-fault:bad-membership", "startup-fault:bad-metadata", "startup-fault:file-read-error", "ckpt-above-high:vb-missing-in-seqno-reply", "stream-ended-during-open-judged"}},
	"C12": {scenarios: []string{"C12", "C12", "C12", "C12r"}, level: "exploration", quickRuns: 2500, thoroughRuns: 60000, runLimit: 30 * time.Second,
		requiredProbes: []string{"transient-end", "final-end", "reopened-after-transient-end", "repeated-transient-end-same-vb", "client-stopped-after-last-final-end", "finite-completion", "active-streams-judged", "end-cause:socket-closed", "five-reopen-failures", "finite-completion-after-rebalance", "reopened-after-transient-end:filtered-stream", "reopened-after-transient-end:after-a-rebalance"}},
	"C07": {level: "exploration", quickRuns: 3500, thoroughRuns: 50000, runLimit: 30 * time.Second,
		requiredProbes: []string{"event-arrived-before-its-coverage", "event-waited-at-the-gate", "wake-up-judged", "threshold-gauge-judged", "close-with-rollback-mitigation"}},
	"C19": {level: "fault_enumeration", quickRuns: 4000, thoroughRuns: 100000, runLimit: 20 * time.Second,
		requiredProbes: []string{"five-consecutive-failures", "stop:during-ping", "stop:during-retry-wait", "stop:between-rounds", "repeated-stop", "repeated-start"}},
	"C10": {scenarios: []string{"C10", "C10sd", "C11"}, level: "exploration", quickRuns: 2100, thoroughRuns: 30000, runLimit: 60 * time.Second,
		requiredProbes: []string{"stable-judged", "join-judged", "departure-judged", "stable-judged:size=1", "stable-judged:size=2", "stable-judged:size=3", "index-cas-conflict", "variant:couchbase", "variant:kubernetesHa", "leader-change-judged", "announcement-filter-judged:dynamic", "follower-registered-before-the-leader-callback"}},
	"C14": {scenarios: []string{"C14", "C14", "C14", "C10"}, level: "exploration", quickRuns: 2500, thoroughRuns: 60000, runLimit: 30 * time.Second,
		requiredProbes: []string{"own-checkpoint-write-fed-back", "transaction-record-emitted", "reserved-prefix-event-absorbed", "checkpoint-write-judged", "absorbed-event-advanced-position", "dotted-group-name", "group-name-with-colon", "rewrite-justified-by:ack", "membership-document-write-judged"}},
	"C20": {level: "fault_enumeration", quickRuns: 3000, thoroughRuns: 60000, runLimit: 30 * time.Second,
		requiredProbes: []string{"behaviour:prompt", "behaviour:error", "behaviour:before-deadline", "behaviour:after-deadline", "behaviour:never", "behaviour:drop",
			"wrapper:CreateDocument", "wrapper:UpdateDocument", "wrapper:DeleteDocument", "wrapper:UpsertXattrs", "wrapper:GetXattrs", "wrapper:Get", "wrapper:CreatePath", "wrapper:Ping", "wrapper:GetFailOverLogs", "wrapper:OpenStream", "wrapper:CloseStream", "wrapper:GetVBucketSeqNos", "wrapper:GetCollectionIDs", "wrapper:MetaSave", "wrapper:MetaLoad", "wrapper:MetaClear"}},
}
