package sim

import (
	"fmt"
	"time"

	"github.com/asaskevich/EventBus"

	dcp "github.com/Trendyol/go-dcp"
	"github.com/Trendyol/go-dcp/membership"
	"github.com/Trendyol/go-dcp/servicediscovery"

	"verif/journal"
)

// jbus wraps the member's real event bus: every Publish is journalled (who notified what, when) and
// subscriptions are counted so the scenario knows when the membership listener exists.
type jbus struct {
	EventBus.Bus
	m    *Member
	subs int
}

func (b *jbus) Publish(topic string, args ...interface{}) {
	ev := &journal.Ev{K: journal.KPublish, M: b.m.id, Vb: -1, S: topic}
	if len(args) == 1 {
		if mod, ok := args[0].(*membership.Model); ok {
			ev.I, ev.U = int64(mod.MemberNumber), uint64(mod.TotalMembers)
		}
	}
	b.m.w.jl(ev)
	b.Bus.Publish(topic, args...)
}

func (b *jbus) SubscribeAsync(topic string, fn interface{}, transactional bool) error {
	b.m.w.mu.Lock()
	b.subs++
	b.m.w.mu.Unlock()
	return b.Bus.SubscribeAsync(topic, fn, transactional)
}

// scRebal: group membership changes after the client signalled readiness (C11); also the range-change
// variant of C04, the rebalance-window variant of C13 and the group gauges of C16.
type scRebal struct {
	baseScn
	prop    string
	closeAt int
	quiet   bool // C13r: Close() arrives when every earlier notification has run its course

	transientEnds int
}

func init() {
	for _, p := range []string{"C11", "C04r", "C13r", "C16r", "C12r"} {
		p := p
		scenarios[p] = func() Scenario { return &scRebal{prop: p} }
	}
}

var memberships = [][2]int{{1, 1}, {1, 2}, {2, 2}, {1, 3}, {2, 3}, {3, 3}}

func (s *scRebal) Configure(w *World) {
	c, t := w.cfg, w.tape
	c.NVb = 4 + t.Draw(5, nil)
	c.NNodes = 1 + t.Draw(2, nil)
	c.MaxItems = 5 + t.Draw(10, nil)
	c.PreItems = t.Draw(4, nil)
	c.ItemKinds = []string{"mut", "del", "exp", "sys:collcreate"}
	c.ItemKindW = []int{10, 3, 2, 1}
	c.Membership = Pick(t, []string{"dynamic", "kubernetesHa"}, nil)
	c.RebalanceDelay = Pick(t, []time.Duration{3001 * time.Millisecond, 7001 * time.Millisecond, 20003 * time.Millisecond}, nil)
	c.ConsumerMode = Pick(t, []string{"immediate", "deferred"}, nil)
	c.CkptInterval = time.Duration(501+200*t.Draw(5, nil)) * time.Millisecond
	if t.Draw(4, nil) == 0 {
		c.MetaBucket = "meta"
	}
	first := memberships[t.Draw(len(memberships), nil)]
	c.MemberNumber, c.TotalMembers = first[0], first[1]
	c.W.Publish = 3
	c.W.Ack, c.W.AckSkip = 5, 2
	c.MaxSteps += 100
	c.QuiesceBudget = 4*c.RebalanceDelay + 30*time.Second
	c.AdvEventMax = 5 * time.Second
	c.Advances = []time.Duration{time.Millisecond, 97 * time.Millisecond, 1013 * time.Millisecond, c.RebalanceDelay - time.Millisecond, c.RebalanceDelay + time.Millisecond}
	if s.prop == "C11" && t.Draw(3, nil) == 0 {
		// rollback mitigation with a lagging replica: events wait at the gate when a notification closes the stream
		c.RM = true
		c.NNodes, c.NReplicas = 2, 1
		c.RMInterval = 303 * time.Millisecond
		c.W.Persist = 5
		c.Extra["rm"] = "1"
	}
	if (s.prop == "C12r" || s.prop == "C11" || s.prop == "C13r") && t.Draw(4, nil) == 0 {
		c.YieldSites = map[string]bool{"stream.wait.close-token": true, "stream.wait.end-token": true}
	}
	if s.prop == "C12r" {
		// finite mode across a rebalance: the session opened by the rebalance runs to its end seqnos
		c.DcpMode = "finite"
		c.W.LateEnd = 1
		c.W.Publish, c.W.Emit = 8, 6
		c.W.ExtWrite = 1
		c.ConsumerMode = "immediate"
	}
	switch s.prop {
	case "C04r":
		c.ConsumerMode = "deferred"
		c.W.AckStale, c.W.AckSkip, c.W.API = 3, 4, 1
	case "C13r":
		s.closeAt = 30 + t.Draw(c.MaxSteps-30, nil)
		if s.quiet = t.Draw(3, nil) == 0; s.quiet {
			c.Extra["quiet-close"] = "1"
			s.closeAt = 30 + (s.closeAt-30)/2 // leave steps for the clock to pass the last notification's rebalance
		}
		c.RM = t.Draw(2, nil) == 0
		c.QuiesceBudget += 100 * time.Second
	case "C16r":
		c.W.Scrape = 3
		c.W.API = 2
	}
	w.buildCluster()
}

func (s *scRebal) TuneMember(w *World, m *Member) {
	if s.prop == "C16r" {
		drawHookScrapes(w, m)
	}
}

func (s *scRebal) BeforeStart(w *World, m *Member) {
	m.sd = servicediscovery.NewServiceDiscovery(m.cfg, m.bus)
	if w.cfg.Membership == "kubernetesHa" {
		m.sd.AssignLeader(servicediscovery.NewService(nopRPC{}, "leader-0", 0))
	}
}

// nopRPC stands for the rpc connection of a follower to its leader (never called in this scenario: the
// heart-beat loop is not started; assignments are handed to SetInfo directly, as rpc_server.go does).
type nopRPC struct{}

func (nopRPC) Close() error             { return nil }
func (nopRPC) IsConnected() bool        { return true }
func (nopRPC) Reconnect() error         { return nil }
func (nopRPC) Ping() error              { return nil }
func (nopRPC) Register() error          { return nil }
func (nopRPC) Rebalance(int, int) error { return nil }

func (s *scRebal) BeforeStep(w *World) {
	for _, m := range w.members {
		if !m.started || m.infoSent || m.d == nil {
			continue
		}
		jb, _ := m.bus.(*jbus)
		w.mu.Lock()
		subs := 0
		if jb != nil {
			subs = jb.subs
		}
		w.mu.Unlock()
		if subs == 0 || dcp.VerifStream(m.d) == nil {
			continue
		}
		m.infoSent = true
		s.notify(w, m, w.cfg.MemberNumber, w.cfg.TotalMembers, w.cfg.Membership == "dynamic")
	}
}

func (s *scRebal) notify(w *World, m *Member, n, t int, viaAPI bool) {
	w.mu.Lock()
	m.notifInFlight++
	m.notifCount++
	m.lastNotifT = time.Duration(w.now())
	w.mu.Unlock()
	done := func() { w.mu.Lock(); m.notifInFlight--; w.mu.Unlock() }
	if viaAPI {
		m.apiCallThen("PUT", "/membership/info", fmt.Sprintf(`{"memberNumber":%d,"totalMembers":%d}`, n, t), done)
		return
	}
	w.mu.Lock()
	m.lastSet = [2]int{n, t}
	w.mu.Unlock()
	m.call(fmt.Sprintf("SetInfo %d/%d", n, t), func() string { m.sd.SetInfo(n, t); done(); return "" })
}

// handover: the leader changed (stream/leader_election.go's OnNewLeader on a follower: RemoveLeader, AssignLeader)
// and the new leader's first message repeats the assignment this member already has.
func (s *scRebal) handover(w *World, m *Member) {
	w.mu.Lock()
	m.notifInFlight++
	m.notifCount++
	m.handovers++
	last := m.lastSet
	name := fmt.Sprintf("leader-%d", m.handovers)
	w.mu.Unlock()
	m.call(fmt.Sprintf("Handover %d/%d", last[0], last[1]), func() string {
		m.sd.RemoveLeader()
		m.sd.AssignLeader(servicediscovery.NewService(nopRPC{}, name, int64(m.handovers)))
		m.sd.SetInfo(last[0], last[1])
		w.mu.Lock()
		m.notifInFlight--
		w.mu.Unlock()
		return ""
	})
}

func (s *scRebal) MemberActions(w *World, m *Member) []Action {
	c := w.cfg
	var acts []Action
	if !m.ready || m.stopped || m.closing && s.prop != "C13r" {
		return nil
	}
	id := fmt.Sprintf("m%d", m.id)
	wt := c.W.Publish
	w.mu.Lock()
	if m.closing {
		wt *= 4 // the discovery monitor and the API keep notifying while the shutdown runs
	} else if s.quiet && w.step >= s.closeAt {
		wt = 0
	}
	settled := m.phase == "open" && m.notifInFlight == 0 && time.Duration(w.now()) > m.lastNotifT+2*c.RebalanceDelay+2*time.Second
	if m.phase != "open" {
		wt *= 3 // place notifications inside the close / delay / reopen windows
	}
	budget := 14
	if m.closing {
		budget = m.notifAtClose + 4
	} else {
		m.notifAtClose = m.notifCount
	}
	if m.notifInFlight >= 2 || m.notifCount >= budget {
		wt = 0 // at most two publishers at a time (the API and the discovery monitor), a bounded number per run
	}
	w.mu.Unlock()
	for _, mv := range memberships {
		if mv[1] > c.NVb {
			continue
		}
		mv := mv
		if c.Membership == "dynamic" {
			acts = append(acts, Action{ID: fmt.Sprintf("info|api|%s|%d/%d", id, mv[0], mv[1]), W: wt, Do: func() { s.notify(w, m, mv[0], mv[1], true) }})
		} else {
			acts = append(acts, Action{ID: fmt.Sprintf("info|sd|%s|%d/%d", id, mv[0], mv[1]), W: wt, Do: func() { s.notify(w, m, mv[0], mv[1], false) }})
		}
	}
	if c.Membership == "kubernetesHa" && m.lastSet[1] > 0 {
		hw := wt
		if hw > 2 {
			hw = 2
		}
		acts = append(acts, Action{ID: "handover|" + id, W: hw, Do: func() { s.handover(w, m) }})
	}
	acts = append(acts, Action{ID: "rebalance|api|" + id, W: wt, Do: func() {
		w.mu.Lock()
		m.notifInFlight++
		m.notifCount++
		m.lastNotifT = time.Duration(w.now())
		w.mu.Unlock()
		m.apiCallThen("GET", "/rebalance", "", func() { w.mu.Lock(); m.notifInFlight--; w.mu.Unlock() })
	}})
	if m.closing {
		return acts
	}
	closeW := 0
	if s.closeAt > 0 && w.step >= s.closeAt {
		closeW = 2
		w.mu.Lock()
		if m.phase != "open" {
			closeW = 30
		}
		w.mu.Unlock()
		if s.quiet {
			closeW = 0
			if settled {
				closeW = 10
			}
		}
	}
	acts = append(acts, Action{ID: "close|" + id, W: closeW, Do: func() { w.closeMember(m) }})
	if !m.scraping {
		acts = append(acts, Action{ID: "scrape|" + id, W: c.W.Scrape, Do: func() { m.scrape() }})
	}
	acts = append(acts, Action{ID: "api-offset|" + id, W: c.W.API, Do: func() { m.apiCall("GET", "/states/offset", "") }})
	return acts
}

func (s *scRebal) MayDrop(w *World, c *Conn) bool  { return false }
func (s *scRebal) MayStall(w *World, c *Conn) bool { return false }

func (s *scRebal) Actions(w *World) []Action {
	var acts []Action
	if w.cfg.W.Persist > 0 {
		acts = w.persistActions()
	}
	if s.prop == "C12r" && s.transientEnds < 3 && w.ready1() {
		// a stream ends with a re-openable status in a session opened by a rebalance (or the first one)
		w.mu.Lock()
		for _, st := range w.sortedStreams() {
			st := st
			m := w.members[st.conn.member-1]
			if !st.open || m.closing || m.stopped || m.crashed || !m.ready || m.phase != "open" || m.notifInFlight > 0 {
				continue
			}
			for _, es := range []struct {
				name   string
				status int
			}{{"state-changed", 2}, {"too-slow", 4}} {
				es := es
				acts = append(acts, Action{ID: fmt.Sprintf("end|%s|%s", es.name, st.sid), W: 1, Do: func() {
					s.transientEnds++
					w.fault("end:"+es.name, st.sid)
					w.mu.Lock()
					st.endStat = es.status
					w.cl.emitEnd(st)
					w.mu.Unlock()
				}})
			}
		}
		w.mu.Unlock()
	}
	return acts
}

func (s *scRebal) OnQuiesce(w *World) {
	if w.cfg.RM {
		w.persistAll()
	}
}
