#!/bin/bash
# Rebuild the worker from /repo's current working tree (overlay regenerated every time).
set -e
cd /verif
export GOFLAGS=-mod=mod GOPROXY=off GOSUMDB=off GOTOOLCHAIN=local
VERIF_GOROOT=$(go1.26.8 env GOROOT) ./bin/instrument overlay /repo /verif build/overlay >/dev/null
go1.26.8 test -c -vet=off -tags verif -overlay build/overlay/overlay.json -ldflags=-checklinkname=0 -o ${VERIF_WORKER_BIN:-bin/worker.test} ./sim
