#!/bin/bash
# MANIFEST.setup_cmd: build the framework from files on disk only (offline).
set -e
cd /verif
export GOFLAGS=-mod=mod GOPROXY=off GOSUMDB=off GOTOOLCHAIN=local
mkdir -p bin build evidence replays
go1.26.8 build -o bin/instrument ./tools/instrument
./bin/instrument thirdparty "$(go1.26.8 env GOMODCACHE)" build/third_party
go1.26.8 build -o bin/verif ./cmd/verif
./build.sh
echo "setup: ok"
