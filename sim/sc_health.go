package sim

import (
	"errors"
	"fmt"
	"time"

	"github.com/couchbase/gocbcore/v10"

	"github.com/Trendyol/go-dcp/config"
	"github.com/Trendyol/go-dcp/couchbase"
	"github.com/Trendyol/go-dcp/models"
	"github.com/Trendyol/go-dcp/wrapper"

	"verif/journal"
)

// scHealth (C19, component run): the real health checker against a fake Client whose Ping parks at a
// seam. The scheduler decides the outcome of every ping, when Stop()/Start() are called, and how far
// the clock moves (to 1 ms either side of the tick and of the retry wait).
type scHealth struct {
	baseScn
	hc        couchbase.HealthCheck
	cl        *fakePingClient
	quickStop bool
	pattern   int // success/failure pattern of the rounds, consumed bit by bit (1 = fail)
	bit       int
	stops     int
	starts    int
	stopping  bool
	stopped   bool
	interval  time.Duration
	calls     int
}

type fakePingClient struct {
	w       *World
	release chan error
	pending int
	n       int
}

func (f *fakePingClient) Ping() (*models.PingResult, error) {
	w := f.w
	w.mu.Lock()
	f.n++
	id := fmt.Sprintf("p%d", f.n)
	f.pending++
	w.mu.Unlock()
	w.jl(&journal.Ev{K: journal.KCall, Vb: -1, S: "Ping", ID: id})
	w.poke()
	err := <-f.release
	res := "ok"
	if err != nil {
		res = "fail"
	}
	w.jl(&journal.Ev{K: journal.KRet, Vb: -1, S: "Ping", ID: id, S2: res})
	if err != nil {
		if f.n%2 == 1 {
			// the cluster answered but one service is unhealthy: client.Ping returns the partial result with the error
			return &models.PingResult{MemdEndpoint: "a"}, err
		}
		return nil, err // timed out
	}
	return &models.PingResult{MemdEndpoint: "a", MgmtEndpoint: "b"}, nil
}

func (f *fakePingClient) GetAgent() *gocbcore.Agent                                { return nil }
func (f *fakePingClient) GetMetaAgent() *gocbcore.Agent                            { return nil }
func (f *fakePingClient) Connect() error                                           { return nil }
func (f *fakePingClient) Close()                                                   {}
func (f *fakePingClient) DcpConnect(bool, bool) error                              { return nil }
func (f *fakePingClient) DcpClose()                                                {}
func (f *fakePingClient) GetNumVBuckets() int                                      { return 0 }
func (f *fakePingClient) CloseStream(uint16) error                                 { return nil }
func (f *fakePingClient) GetAgentQueues() []*models.AgentQueue                     { return nil }
func (f *fakePingClient) GetFailOverLogs(uint16) ([]gocbcore.FailoverEntry, error) { return nil, nil }
func (f *fakePingClient) GetVBucketSeqNos(bool) (*wrapper.ConcurrentSwissMap[uint16, uint64], error) {
	return nil, nil
}
func (f *fakePingClient) OpenStream(uint16, map[uint32]string, *models.Offset, couchbase.Observer) error {
	return nil
}
func (f *fakePingClient) GetCollectionIDs(string, []string) (map[uint32]string, error) {
	return nil, nil
}
func (f *fakePingClient) GetAgentConfigSnapshot() (*gocbcore.ConfigSnapshot, error) { return nil, nil }
func (f *fakePingClient) GetDcpAgentConfigSnapshot() (*gocbcore.ConfigSnapshot, error) {
	return nil, nil
}

func init() { scenarios["C19"] = func() Scenario { return &scHealth{} } }

func (s *scHealth) Configure(w *World) {
	c, t := w.cfg, w.tape
	s.interval = time.Duration(3001+1000*t.Draw(5, nil)) * time.Millisecond
	s.pattern = t.Draw(1<<15, nil) // three rounds of up to five outcomes
	s.quickStop = t.Draw(8, nil) == 0
	c.MaxSteps = 60 + t.Draw(60, nil)
	c.QuiesceBudget = 3 * s.interval
	c.AdvEventMax = 7 * time.Second
	c.Advances = []time.Duration{time.Millisecond, 999 * time.Millisecond, time.Second, 1001 * time.Millisecond, s.interval - time.Millisecond, s.interval + time.Millisecond}
	c.W.Advance, c.W.AdvEvent, c.W.ExtWrite = 2, 6, 0
	c.DelayFaults = true
	c.Extra["interval_ns"] = fmt.Sprint(int64(s.interval))
	c.Extra["pattern"] = fmt.Sprintf("%015b", s.pattern)
	w.cl = newCluster(w, 1)
	s.cl = &fakePingClient{w: w, release: make(chan error)}
	s.hc = couchbase.NewHealthCheck(&config.HealthCheck{Interval: s.interval, Timeout: 2 * time.Second}, s.cl)
}

func (s *scHealth) Boot(w *World) {
	if s.quickStop {
		// Stop() right behind Start(), before the checker goroutine has been scheduled for the first time
		s.calls += 2
		w.probe("stop:before-the-checker-goroutine-ran")
		go func() {
			w.jl(&journal.Ev{K: journal.KCall, Vb: -1, S: "Start", ID: "h1"})
			s.hc.Start()
			w.jl(&journal.Ev{K: journal.KRet, Vb: -1, S: "Start", ID: "h1"})
			w.jl(&journal.Ev{K: journal.KCall, Vb: -1, S: "Stop", ID: "h2"})
			s.hc.Stop()
			w.jl(&journal.Ev{K: journal.KRet, Vb: -1, S: "Stop", ID: "h2"})
			w.poke()
		}()
		s.starts++
		s.stops++
		return
	}
	s.call(w, "Start", func() { s.hc.Start() })
	s.starts++
}

func (s *scHealth) call(w *World, name string, f func()) {
	s.calls++
	id := fmt.Sprintf("h%d", s.calls)
	w.jl(&journal.Ev{K: journal.KCall, Vb: -1, S: name, ID: id})
	go func() {
		f()
		w.jl(&journal.Ev{K: journal.KRet, Vb: -1, S: name, ID: id})
		w.poke()
	}()
}

func (s *scHealth) Actions(w *World) []Action {
	var acts []Action
	w.mu.Lock()
	pending := s.cl.pending
	w.mu.Unlock()
	if pending > 0 {
		fail := s.pattern>>(uint(s.bit)%15)&1 == 1
		wOK, wFail := 2, 10
		if !fail {
			wOK, wFail = 10, 2
		}
		answer := func(err error) func() {
			return func() {
				s.bit++
				w.mu.Lock()
				s.cl.pending--
				w.mu.Unlock()
				if err != nil {
					w.jl(&journal.Ev{K: journal.KExpect, Vb: -1, S: "sim: ping failed"})
				}
				s.cl.release <- err
			}
		}
		acts = append(acts, Action{ID: "ping|ok", W: wOK, Do: answer(nil)})
		acts = append(acts, Action{ID: "ping|fail", W: wFail, Do: answer(errors.New("sim: ping failed"))})
	}
	if s.stops < 3 {
		acts = append(acts, Action{ID: "stop", W: 1, Do: func() {
			s.stops++
			s.call(w, "Stop", func() { s.hc.Stop() })
		}})
	}
	if s.starts < 3 {
		acts = append(acts, Action{ID: "start", W: 1, Do: func() {
			s.starts++
			s.call(w, "Start", func() { s.hc.Start() })
		}})
	}
	return acts
}

// HoldClock: a ping is answered before the clock moves on (the real Ping is bounded by its own timeout;
// letting the fake one hang for several ticks would only test the ticker's catch-up behaviour).
func (s *scHealth) HoldClock(w *World) bool {
	w.mu.Lock()
	defer w.mu.Unlock()
	return s.cl.pending > 0
}

// OnQuiesce: pending pings are answered with success so that the run can settle.
func (s *scHealth) OnQuiesce(w *World) {}
