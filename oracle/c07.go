package oracle

import (
	"encoding/json"
	"fmt"
	"strconv"
	"strings"

	"verif/journal"
)

// C07 — with rollback mitigation, nothing the cluster could still roll back is delivered.
//
// Recomputed from the statement: per vBucket keep the latest report the node DELIVERED to this member
// for every copy listed in the cluster map; covered(s) holds once all listed copies have reported,
// under one common vbUUID, a persisted seqno >= s.
func init() { checkers["C07"] = checkC07 }

type obsRep struct {
	uuid, persisted uint64
	have            bool
}

func checkC07(run *Run, res *Result) {
	cfg := &run.Cfg
	if !cfg.RM {
		return
	}
	var vbmap [][]int
	reports := map[vbKey][]obsRep{} // (member, vb) -> per replica index
	lastGauge := map[vbKey]float64{}
	closing := map[int]bool{}
	closeN := map[int]int{}
	mapBumps := 0
	obsErrors := 0
	interval := cfg.RMInterval
	// per (member, dcp connection): FIFO of messages handed to the connection and not yet seen processed
	type msg struct {
		vb       int
		seq      uint64 // the seqno the gate compares (marker: its start)
		doc      bool
		n        int
		t        int64
		coveredT int64 // first instant it was covered (-1 = not yet)
	}
	fifo := map[string][]*msg{} // key: member|conn
	sidConn := map[string]string{}
	lastPop := map[string]int64{}
	// coveredUpTo[(m,vb)]: the highest s for which, at some instant so far, every listed copy had reported
	// (under one common vbUUID) a persisted seqno >= s. Once covered, always covered.
	coveredUpTo := map[vbKey]uint64{}
	everCovered := map[vbKey]bool{}
	// The client learns a new cluster map one CCCP poll plus one config-watch round after the node changed it;
	// until then gating under the previous map is all it can do (only relevant when a copy was added).
	// "Listed in the cluster map" is judged against the map revisions the member's DCP agent has been given
	// (streaming config pushes, journalled as config-sent): a revision counts from the moment it was sent; the
	// previous one stays acceptable for one config-watch round plus one observe round after that (mapGrace).
	// (With observe faults a round in progress - retries with back-off - delays the switch to the new map further.)
	// Without any fault the switch can still take two config-watch rounds plus gocbcore's 5 s observe deadline:
	// when a revision removes a replica, the library's observe of that copy (still in its own, older map) is held
	// by gocbcore (which already has the new map) until the deadline; the observe round, and with it the pending
	// reconfiguration - which then uses the snapshot taken before the wait - finish only then.
	mapGrace := int64(12_000_000_000)
	if run.Cfg.Faults {
		mapGrace = 20_000_000_000
	}
	mapsByRev := map[int64][][]int{}
	type revAt struct {
		rev int64
		t   int64
	}
	clientRevs := map[int][]revAt{} // member -> revisions sent to its DCP agent, in order
	var recomputeWith func(m, vb int, vm [][]int)
	recompute := func(m, vb int, now int64) {
		revs := clientRevs[m]
		if len(revs) == 0 {
			recomputeWith(m, vb, vbmap)
			return
		}
		for i, r := range revs {
			// revision i was the client's map until revision i+1 was sent; it stays acceptable for mapGrace after that
			if i == len(revs)-1 || now-revs[i+1].t < mapGrace {
				if vm, ok := mapsByRev[r.rev]; ok {
					recomputeWith(m, vb, vm)
				}
			}
		}
	}
	recomputeWith = func(m, vb int, vbmap [][]int) {
		if vbmap == nil || vb >= len(vbmap) {
			return
		}
		reps := reports[vbKey{m, vb}]
		var uuid, min uint64
		first := true
		for r, node := range vbmap[vb] {
			if node < 0 {
				continue
			}
			if r >= len(reps) || !reps[r].have {
				return
			}
			if first {
				uuid, min, first = reps[r].uuid, reps[r].persisted, false
				continue
			}
			if reps[r].uuid != uuid {
				return
			}
			if reps[r].persisted < min {
				min = reps[r].persisted
			}
		}
		if first {
			return
		}
		k := vbKey{m, vb}
		everCovered[k] = true
		if min > coveredUpTo[k] {
			coveredUpTo[k] = min
		}
	}
	covered := func(m, vb int, s uint64) bool {
		k := vbKey{m, vb}
		return everCovered[k] && s <= coveredUpTo[k]
	}
	refresh := func(t int64) {
		for key, q := range fifo {
			m, _ := strconv.Atoi(strings.SplitN(key, "|", 2)[0])
			for _, x := range q {
				if x.coveredT < 0 && covered(m, x.vb, x.seq) {
					x.coveredT = t
				}
			}
		}
	}
	sessionN := map[int]int{}
	for i := range run.Evs {
		e := &run.Evs[i]
		k := vbKey{e.M, e.Vb}
		switch e.K {
		case journal.KNote:
			if e.S == "config-sent" && (e.S2 == "d" || e.S2 == "http") {
				if revs := clientRevs[e.M]; len(revs) == 0 || revs[len(revs)-1].rev != e.I {
					clientRevs[e.M] = append(revs, revAt{e.I, e.T})
					res.probe("cluster-map-revision-reached-the-client")
				}
			}
		case "vbmap":
			vbmap = nil
			_ = json.Unmarshal(e.Raw, &vbmap)
			mapsByRev[e.I] = vbmap
			if e.I != 1_000_001 {
				mapBumps++
			}
		case journal.KHandler:
			if e.S == "BeforeStreamStart" {
				sessionN[e.M] = e.N
				for kk := range lastGauge {
					if kk.m == e.M {
						delete(lastGauge, kk)
					}
				}
			}
		case journal.KCall:
			if e.S == "Close" {
				closing[e.M], closeN[e.M] = true, e.N
			}
		case journal.KObs:
			if e.S2 != "ok" {
				obsErrors++
				continue
			}
			reps := reports[k]
			for len(reps) <= int(e.I) {
				reps = append(reps, obsRep{})
			}
			reps[e.I] = obsRep{uuid: e.U, persisted: e.U2, have: true}
			reports[k] = reps
			recompute(e.M, e.Vb, e.T)
			refresh(e.T)
		case journal.KFault:
			if strings.HasPrefix(e.S, "err:") {
				obsErrors++
			}
		case journal.KSReq:
			if e.S2 == "ok" {
				for j := i + 1; j < len(run.Evs) && j < i+3; j++ {
					if run.Evs[j].K == journal.KRsp {
						sidConn[e.ID] = strings.SplitN(run.Evs[j].ID, "|", 2)[0]
						break
					}
				}
			}
		case journal.KEmit:
			conn := sidConn[e.ID]
			if conn == "" || e.S == "end" {
				continue
			}
			key := fmt.Sprintf("%d|%s", e.M, conn)
			x := &msg{vb: e.Vb, n: e.N, t: e.T, coveredT: -1}
			switch {
			case e.S == "marker":
				x.seq = e.U
			default:
				x.seq = e.Seq
				x.doc = isDocKind(e.S) && !isInternalKey(e.Key)
			}
			if covered(e.M, x.vb, x.seq) {
				x.coveredT = e.T
			} else if x.doc {
				res.probe("event-arrived-before-its-coverage")
			}
			fifo[key] = append(fifo[key], x)
		case journal.KTrack:
			// a position handed to the consumer's offset tracker (acknowledgement or absorbed stream event)
			if e.Off != nil && e.Off.Seq > 0 && !covered(e.M, e.Vb, e.Off.Seq) && !closing[e.M] {
				res.violate("C07", "R1-position-advanced-before-persisted-everywhere", e.N, "plain",
					"member %d vb %d: position %d was reported to the consumer's offset tracker before every listed copy had reported it persisted under one vbUUID", e.M, e.Vb, e.Off.Seq)
			} else if e.Off != nil {
				res.probe("tracked-position-judged")
			}
		case journal.KConsume:
			if !covered(e.M, e.Vb, e.Seq) {
				sig := "plain"
				if closing[e.M] {
					sig = "delivered-while-closing"
				}
				res.violate("C07", "R1-delivered-before-persisted-everywhere", e.N, sig,
					"member %d vb %d: seqno %d reached the consumer although the copies listed in the cluster map have not all reported, under one vbUUID, a persisted seqno >= %d (reports delivered so far: %s)",
					e.M, e.Vb, e.Seq, e.Seq, fmtReports(reports[k], vbmap, e.Vb))
			}
			// R3: no lost wake-up — pop the connection's FIFO up to this event and bound its waiting time
			for key, q := range fifo {
				if !strings.HasPrefix(key, fmt.Sprintf("%d|", e.M)) {
					continue
				}
				idx := -1
				for j, x := range q {
					if x.doc && x.vb == e.Vb && x.seq == e.Seq {
						idx = j
						break
					}
				}
				if idx < 0 {
					continue
				}
				var allCovered int64
				waited := false
				for _, x := range q[:idx+1] {
					if x.coveredT > allCovered {
						allCovered = x.coveredT
					}
					if x.coveredT > x.t {
						waited = true
					}
				}
				fifo[key] = q[idx+1:]
				if lastPop[key] > allCovered {
					allCovered = lastPop[key] // head-of-line: it could not be delivered before what was ahead of it on the connection
				}
				lastPop[key] = e.T
				if waited {
					res.probe("event-waited-at-the-gate")
				}
				if waited && mapBumps == 0 && obsErrors == 0 && !closing[e.M] && cfg.ConsumerMode == "immediate" {
					if late := e.T - allCovered; late > interval/5+2_000_000 {
						res.violate("C07", "R3-lost-wake-up", e.N, "plain",
							"member %d vb %d: seqno %d was covered by the persistence reports at %s but delivered %s later (the gate re-checks every %s)", e.M, e.Vb, e.Seq, fmtDur(allCovered), fmtDur(late), fmtDur(interval/5))
					}
					res.probe("wake-up-judged")
				}
			}
		case journal.KScrape:
			for name, val := range e.F {
				if vb, ok := metricVb(name, "cbgo_persist_seq_no_current"); ok {
					kk := vbKey{e.M, vb}
					if prev, seen := lastGauge[kk]; seen && val < prev {
						res.violate("C07", "R2-threshold-decreased", e.N, fmt.Sprintf("vb=%d", vb), "member %d vb %d: cbgo_persist_seq_no_current went from %v to %v within one session", e.M, vb, prev, val)
					}
					lastGauge[kk] = val
					res.probe("threshold-gauge-judged")
				}
			}
		}
	}
	if len(closing) > 0 {
		res.probe("close-with-rollback-mitigation")
	}
}

func fmtReports(reps []obsRep, vbmap [][]int, vb int) string {
	var b strings.Builder
	for r, x := range reps {
		node := -2
		if vbmap != nil && vb < len(vbmap) && r < len(vbmap[vb]) {
			node = vbmap[vb][r]
		}
		fmt.Fprintf(&b, "[copy %d node %d: have=%v uuid=%d persisted=%d]", r, node, x.have, x.uuid, x.persisted)
	}
	if vbmap != nil && vb < len(vbmap) {
		fmt.Fprintf(&b, " map=%v", vbmap[vb])
	}
	return b.String()
}
