//go:build verif

package couchbase

import (
	"github.com/Trendyol/go-dcp/config"
	"github.com/couchbase/gocbcore/v10"
)

// VerifNewClient builds the real client around agents the simulator created (Connect/DcpConnect,
// which need DNS and an HTTP seed, are the only code skipped).
func VerifNewClient(cfg *config.Dcp, agent, metaAgent *gocbcore.Agent, dcpAgent *gocbcore.DCPAgent) Client {
	return &client{agent: agent, metaAgent: metaAgent, dcpAgent: dcpAgent, config: cfg}
}

// VerifMinSeqNo runs the unexported getMinSeqNo on a supplied replica table.
func VerifMinSeqNo(table [][3]uint64) uint64 {
	r := &rollbackMitigation{}
	r.reset0(table)
	return uint64(r.getMinSeqNo(0))
}
