package oracle

import (
	"fmt"
	"strings"

	"verif/journal"
)

// C10 — group members derive a consistent, collision-free numbering.
//
// Reference model: the scenario ends every quiet period (long enough for the documented bounds: start-up
// delay + heart-beat interval + tolerance + three monitor rounds) with a "stable" note listing the live
// instances in join order. At that moment
//
//	R1  every live member's numbering in effect is (its position in join order, number of live members);
//	R2  every live member has announced a numbering at all (a new instance is admitted, GetInfo returned);
//	R3  between two announcements of one member the numbering differs (announce only on change);
//	R4  no member terminates the process while it is alive and the network is fault-free.
func init() { checkers["C10"] = checkC10 }

func checkC10(run *Run, res *Result) {
	type info struct {
		n, t int64
		ev   int
		set  bool
	}
	last := map[int]*info{}
	got := map[int]*info{}
	prevLive := map[uint64]bool{}
	variant := run.Cfg.Membership
	res.probe("variant:" + variant)
	leaderChanges := 0
	leader := 0
	ejected := map[int]int{} // live follower removed by the leader after a failed ping -> event number
	dead := map[int]bool{}
	for i := range run.Evs {
		e := &run.Evs[i]
		switch e.K {
		case journal.KPublish:
			if e.S != "membershipChanged" {
				continue
			}
			p := last[e.M]
			if p != nil && p.set && p.n == e.I && p.t == int64(e.U) {
				res.violate("C10", "R3-unchanged-numbering-announced", e.N, "plain", "member %d announced %d/%d again (previous announcement: event #%d)", e.M, e.I, e.U, p.ev)
			}
			last[e.M] = &info{n: e.I, t: int64(e.U), ev: e.N, set: true}
			res.probe("announcement")
		case journal.KRet:
			if e.S == "GetInfo" {
				got[e.M] = &info{n: e.I, t: int64(e.U), ev: e.N, set: true}
			}
		case journal.KCrash:
			dead[e.M] = true
		case journal.KFault:
			if e.S == "rpc-ping-failed" {
				var from, to int
				if _, err := fmt.Sscanf(e.ID, "%d>%d", &from, &to); err == nil && from == leader && !dead[to] {
					ejected[to] = e.N
					res.probe("leader-ping-to-live-follower-failed")
				}
			}
			if e.S == "rpc-rebalance-failed" {
				res.probe("rebalance-call-failed")
			}
		case journal.KRsp:
			if e.S2 == "0x02" && strings.Contains(string(e.Key), ":instance:all") {
				res.probe("index-cas-conflict")
			}
		case journal.KNote:
			if e.S == "leader" {
				leaderChanges++
				leader = e.M
				ejected = map[int]int{}
			}
			if e.S == "registered" {
				delete(ejected, e.M)
			}
			if e.S != "stable" {
				continue
			}
			if leaderChanges > 1 {
				res.probe("leader-change-judged")
			}
			live := e.L
			size := int64(len(live))
			res.probe(fmt.Sprintf("stable-judged:size=%d", size))
			res.probe("stable-judged")
			nowLive := map[uint64]bool{}
			for _, id := range live {
				nowLive[id] = true
				if !prevLive[id] {
					res.probe("join-judged")
				}
			}
			for id := range prevLive {
				if !nowLive[id] {
					res.probe("departure-judged")
				}
			}
			prevLive = nowLive
			sig := "plain"
			for _, id := range live {
				if _, ok := ejected[int(id)]; ok {
					sig = "live-follower-ejected-after-leader-ping-failure"
				}
			}
			for pos, id := range live {
				m := int(id)
				p := last[m]
				want := fmt.Sprintf("%d/%d", pos+1, size)
				if p == nil {
					res.violate("C10", "R2-not-admitted", e.N, "plain", "%s: member %d is alive (position %d of %d in join order) but has announced no numbering by the end of the quiet period", variant, m, pos+1, size)
					continue
				}
				if g := got[m]; g == nil {
					res.violate("C10", "R2-getinfo-never-returned", e.N, "plain", "%s: member %d announced %d/%d (event #%d) but GetInfo() has not returned", variant, m, p.n, p.t, p.ev)
				}
				if p.n != int64(pos+1) || p.t != size {
					res.violate("C10", "R1-inconsistent-numbering", e.N, sig, "%s: at the end of the quiet period the live members in join order are %v; member %d should be %s but the numbering it has in effect is %d/%d (announced at event #%d)",
						variant, live, m, want, p.n, p.t, p.ev)
				}
			}
		}
	}
	if run.Cfg.Prop == "C11" {
		// the rebalance scenario (dynamic membership over the API, assignments handed to SetInfo): judged here only
		// for "a numbering is announced only when it differs"; how the stream copes with the announcements is C11's
		res.probe("announcement-filter-judged:" + variant)
		return
	}
	if res.DeathKind == "library-failstop" || res.DeathKind == "runtime-panic" {
		res.violate("C10", "R4-member-terminated", len(run.Evs), "plain", "%s: the process was terminated although no fault was injected: %s", variant, res.FailStop)
	}
}
