package sim

import (
	"fmt"
	"strconv"
	"time"

	"github.com/asaskevich/EventBus"

	"github.com/Trendyol/go-dcp/couchbase"
	"github.com/Trendyol/go-dcp/membership"

	"verif/journal"
)

// scGroupCB (C10, heart-beat variant): several real couchbase.NewCBMembership instances, each with its
// own real client and event bus, share one simulated bucket. Joins, graceful leaves and silent deaths
// are separated by quiet periods long enough for the documented bounds; at the end of every quiet
// period the scenario writes a "stable" note with the live instances in join order and the oracle
// compares every live member's announced numbering with it.
type scGroupCB struct {
	baseScn
	ms        map[int]membership.Membership
	order     []int // live members in join order
	nextAt    int64 // fake time at which the current quiet period ends
	changes   int
	maxChange int
	maxLive   int
	quiet     time.Duration
	judged    bool
	pending   bool // a join is still registering
}

func init() {
	scenarios["C10"] = func() Scenario { return &scGroupCB{ms: map[int]membership.Membership{}} }
}

func (s *scGroupCB) Configure(w *World) {
	c, t := w.cfg, w.tape
	c.NVb = 4
	c.NNodes = 1 + t.Draw(2, nil)
	c.PreItems, c.MaxItems = 0, 0
	c.W.ExtWrite = 0
	c.Membership = "couchbase"
	hb := Pick(t, []time.Duration{2 * time.Second, 5 * time.Second, 10 * time.Second}, nil)
	tol := Pick(t, []time.Duration{4 * time.Second, 15 * time.Second, 60 * time.Second}, nil)
	mon := Pick(t, []time.Duration{3 * time.Second, 10 * time.Second, 30 * time.Second}, nil)
	exp := Pick(t, []int{120, 30}, []int{3, 1})
	c.RebalanceDelay = Pick(t, []time.Duration{3001 * time.Millisecond, 20003 * time.Millisecond}, nil)
	c.MembershipConfig = map[string]string{"heartbeatInterval": hb.String(), "heartbeatToleranceDuration": tol.String(),
		"monitorInterval": mon.String(), "expirySeconds": strconv.Itoa(exp), "timeout": "30s"}
	// bound promised by the property: a dead instance is dropped once its heart-beat is older than
	// interval+tolerance, which the next monitor round of every member notices; a new instance is admitted
	// by its own first monitor round (after the start-up delay) and by the others' next round.
	s.quiet = c.RebalanceDelay + hb + tol + 3*mon + 5*time.Second
	c.Extra["quiet_ns"] = strconv.FormatInt(int64(s.quiet), 10)
	c.Extra["hb_ns"], c.Extra["tol_ns"], c.Extra["mon_ns"] = strconv.FormatInt(int64(hb), 10), strconv.FormatInt(int64(tol), 10), strconv.FormatInt(int64(mon), 10)
	s.maxChange = 2 + t.Draw(4, nil)
	s.maxLive = 4
	if c.Tier == "thorough" {
		s.maxChange = 2 + t.Draw(8, nil)
		s.maxLive = 8
	}
	c.Faults, c.DelayFaults, c.BootFaults = false, false, false
	c.MaxSteps = 3000
	c.AdvEventMax = 10 * time.Second
	c.Advances = []time.Duration{time.Millisecond, 503 * time.Millisecond, 2003 * time.Millisecond, 7001 * time.Millisecond}
	if tol >= 15*time.Second && t.Draw(3, nil) == 0 {
		// slow network: replies wait up to ~3 s while the clock runs, so monitor rounds of different members overlap
		// (index CAS conflicts) and heart-beats land late - never later than the tolerance allows
		c.DelayFaults, c.BootFaults = true, true
		c.MaxReplyDelay = 2 * time.Second
		c.AdvEventMax = time.Second
		c.Advances = []time.Duration{time.Millisecond, 203 * time.Millisecond, 1009 * time.Millisecond}
		s.quiet += 30 * time.Second
		c.Extra["quiet_ns"] = strconv.FormatInt(int64(s.quiet), 10)
		c.Extra["slow"] = "1"
	}
	c.QuiesceBudget = s.quiet
	w.buildCluster()
	w.cl.zombieNotFound = true
}

func (s *scGroupCB) Boot(w *World) { s.join(w) }

// join starts one more instance: agents, client, bus, NewCBMembership (register + heart-beat + monitor loops).
func (s *scGroupCB) join(w *World) {
	m := w.addMember()
	m.started = true
	s.pending = true
	s.changes++
	w.jl(&journal.Ev{K: journal.KMember, M: m.id, Vb: -1, A: map[string]string{"membership": "couchbase", "group": m.cfg.Dcp.Group.Name}})
	go func() {
		c := m.cfg
		m.agent = m.createAgent("a", c.BucketName, c.MaxQueueSize, 1<<20, c.ConnectionTimeout)
		m.meta = m.agent
		m.dagent = m.createDcpAgent()
		m.client = couchbase.VerifNewClient(c, m.agent, m.meta, m.dagent)
		m.bus = &jbus{Bus: EventBus.New(), m: m}
		id := fmt.Sprintf("j%d", m.id)
		w.jl(&journal.Ev{K: journal.KCall, M: m.id, Vb: -1, S: "NewCBMembership", ID: id})
		ms := couchbase.NewCBMembership(c, m.client, m.bus)
		w.jl(&journal.Ev{K: journal.KRet, M: m.id, Vb: -1, S: "NewCBMembership", ID: id})
		w.mu.Lock()
		s.ms[m.id] = ms
		s.order = append(s.order, m.id)
		s.pending = false
		s.nextAt = w.now() + int64(s.quiet)
		s.judged = false
		w.mu.Unlock()
		go func() {
			info := ms.GetInfo()
			w.jl(&journal.Ev{K: journal.KRet, M: m.id, Vb: -1, S: "GetInfo", ID: id, I: int64(info.MemberNumber), U: uint64(info.TotalMembers)})
		}()
		w.poke()
	}()
}

func (s *scGroupCB) remove(w *World, id int) {
	for i, x := range s.order {
		if x == id {
			s.order = append(append([]int{}, s.order[:i]...), s.order[i+1:]...)
		}
	}
	s.changes++
	s.nextAt = w.now() + int64(s.quiet)
	s.judged = false
}

func (s *scGroupCB) BeforeStep(w *World) {
	w.mu.Lock()
	due := !s.pending && !s.judged && len(s.ms) > 0 && w.now() >= s.nextAt
	var live []uint64
	for _, id := range s.order {
		live = append(live, uint64(id))
	}
	w.mu.Unlock()
	if due {
		s.judged = true
		w.jl(&journal.Ev{K: journal.KNote, Vb: -1, S: "stable", L: live})
		if s.changes >= s.maxChange {
			w.done = true
		}
	}
}

func (s *scGroupCB) Actions(w *World) []Action {
	w.mu.Lock()
	defer w.mu.Unlock()
	if s.pending || !s.judged || s.changes >= s.maxChange {
		return nil
	}
	var acts []Action
	if len(s.order) < s.maxLive {
		acts = append(acts, Action{ID: "join", W: 40, Do: func() { s.join(w) }})
	}
	if len(s.order) > 1 || len(s.order) == 1 && s.changes+1 < s.maxChange {
		for _, id := range s.order {
			id := id
			m := w.members[id-1]
			acts = append(acts, Action{ID: fmt.Sprintf("leave|m%d", id), W: 10, Do: func() {
				w.jl(&journal.Ev{K: journal.KCall, M: id, Vb: -1, S: "Close", ID: fmt.Sprintf("l%d", id)})
				s.ms[id].Close()
				w.jl(&journal.Ev{K: journal.KRet, M: id, Vb: -1, S: "Close", ID: fmt.Sprintf("l%d", id)})
				m.stopped = true
				m.crash() // the process exits after a graceful close
				w.mu.Lock()
				s.remove(w, id)
				w.mu.Unlock()
			}})
			acts = append(acts, Action{ID: fmt.Sprintf("die|m%d", id), W: 10, Do: func() {
				m.crash()
				w.mu.Lock()
				s.remove(w, id)
				w.mu.Unlock()
			}})
		}
	}
	return acts
}

func (s *scGroupCB) HoldClock(w *World) bool         { return false }
func (s *scGroupCB) MayDrop(w *World, c *Conn) bool  { return false }
func (s *scGroupCB) MayStall(w *World, c *Conn) bool { return false }

// OnQuiesce: the last quiet period may still be running.
func (s *scGroupCB) AfterQuiesce(w *World) {
	w.mu.Lock()
	var live []uint64
	for _, id := range s.order {
		live = append(live, uint64(id))
	}
	judged := s.judged
	w.mu.Unlock()
	if !judged && w.now() >= s.nextAt {
		w.jl(&journal.Ev{K: journal.KNote, Vb: -1, S: "stable", L: live})
	}
}
