//go:build verif

package dcp

import (
	"os"

	"github.com/asaskevich/EventBus"
	"github.com/prometheus/client_golang/prometheus"

	"github.com/Trendyol/go-dcp/config"
	"github.com/Trendyol/go-dcp/couchbase"
	"github.com/Trendyol/go-dcp/models"
	"github.com/Trendyol/go-dcp/stream"
)

// VerifNewDcp is newDcp's struct literal without the dial/HTTP bootstrap.
func VerifNewDcp(cfg *config.Dcp, client couchbase.Client, consumer models.Consumer,
	version *couchbase.Version, bi *couchbase.BucketInfo, bus EventBus.Bus,
) Dcp {
	return &dcp{
		client:           client,
		consumer:         consumer,
		config:           cfg,
		version:          version,
		bucketInfo:       bi,
		apiShutdown:      make(chan struct{}, 1),
		cancelCh:         make(chan os.Signal, 1),
		stopCh:           make(chan struct{}, 1),
		readyCh:          make(chan struct{}, 1),
		metricCollectors: []prometheus.Collector{},
		eventHandler:     models.DefaultEventHandler,
		bus:              bus,
	}
}

func VerifStream(d Dcp) stream.Stream                     { return d.(*dcp).stream }
func VerifVBucketDiscovery(d Dcp) stream.VBucketDiscovery { return d.(*dcp).vBucketDiscovery }
