//go:build verif

// Package vsync is added to the go-dcp module by the simulator's build overlay (it does not exist in
// the repository). Mutex has sync.Mutex semantics but blocks on a channel, so a goroutine waiting
// for it is durably blocked inside a testing/synctest bubble.
package vsync

import "sync"

type Mutex struct {
	once sync.Once
	ch   chan struct{}
}

func (m *Mutex) init() { m.once.Do(func() { m.ch = make(chan struct{}, 1) }) }

func (m *Mutex) Lock() { m.init(); m.ch <- struct{}{} }

func (m *Mutex) TryLock() bool {
	m.init()
	select {
	case m.ch <- struct{}{}:
		return true
	default:
		return false
	}
}

func (m *Mutex) Unlock() {
	m.init()
	select {
	case <-m.ch:
	default:
		panic("sync: unlock of unlocked mutex")
	}
}

// RWMutex is a (writer-only) durable stand-in: readers take the exclusive lock.
type RWMutex struct{ Mutex }

func (m *RWMutex) RLock()   { m.Lock() }
func (m *RWMutex) RUnlock() { m.Unlock() }
