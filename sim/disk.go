package sim

import (
	"errors"
	"io/fs"
	"os"
	"strconv"
	"strings"
	"syscall"

	"github.com/Trendyol/go-dcp/vsync/vfs"

	"verif/journal"
)

// Disk is the simulated disk behind the file metadata backend. Process-crash semantics: WriteFile is
// truncate + two chunks; with seams on, the writer parks after the truncate and after the first chunk,
// so a crash (or anything else) can land in between. Errors (ENOSPC, EIO, short write) are injectable.
type Disk struct {
	w        *World
	files    map[string][]byte
	seams    bool
	failOp   string // "", "enospc", "eio", "short"
	failRead string // "", "eio", "eacces", "emfile": every read of the file fails
	parked   chan struct{}
	pending  int // writers currently parked
	dead     map[int]bool
}

func newDisk(w *World) *Disk {
	d := &Disk{w: w, files: map[string][]byte{}, parked: make(chan struct{})}
	vfs.WriteFileFn = d.writeFile
	vfs.ReadFileFn = d.readFile
	vfs.RemoveFn = d.remove
	return d
}

func (d *Disk) ev(op, name string, content []byte, ok bool) {
	file, m := splitName(name)
	d.w.jl(&journal.Ev{K: journal.KDisk, M: m, Vb: -1, S: op, S2: file, Raw: content, B: ok})
}

// splitName: members open the shared file under the name "<file>#m<k>", which lets the simulated disk
// attribute every call to a process (and ignore the leftovers of a crashed one).
func splitName(name string) (string, int) {
	i := strings.LastIndex(name, "#m")
	if i < 0 {
		return name, 0
	}
	m, _ := strconv.Atoi(name[i+2:])
	return name[:i], m
}

func (d *Disk) deadCaller(name string) bool {
	_, m := splitName(name)
	d.w.mu.Lock()
	defer d.w.mu.Unlock()
	for _, mem := range d.w.members {
		if mem.id == m && mem.crashed {
			return true
		}
	}
	return false
}

func (d *Disk) park() {
	d.w.mu.Lock()
	d.pending++
	d.w.mu.Unlock()
	d.w.poke()
	<-d.parked
}

func (d *Disk) writeFile(name string, data []byte, _ os.FileMode) error {
	w := d.w
	if d.deadCaller(name) {
		w.note("zombie disk write ignored: %s", name)
		return nil
	}
	full := name
	name, _ = splitName(name)
	w.mu.Lock()
	fail := d.failOp
	d.failOp = ""
	seams := d.seams
	w.mu.Unlock()
	switch fail {
	case "enospc":
		// open(O_TRUNC) succeeded, the write did not
		w.mu.Lock()
		d.files[name] = []byte{}
		w.mu.Unlock()
		d.ev("trunc", full, nil, true)
		d.ev("write-fail", full, nil, false)
		w.fault("disk:enospc", full)
		return &fs.PathError{Op: "write", Path: name, Err: syscall.ENOSPC}
	case "eio":
		d.ev("write-fail", full, nil, false)
		w.fault("disk:eio", full)
		return &fs.PathError{Op: "open", Path: name, Err: syscall.EIO}
	case "short":
		w.mu.Lock()
		d.files[name] = append([]byte{}, data[:len(data)/2]...)
		w.mu.Unlock()
		d.ev("write-short", full, data[:len(data)/2], false)
		w.fault("disk:short", full)
		return &fs.PathError{Op: "write", Path: name, Err: errors.New("short write")}
	}
	w.mu.Lock()
	d.files[name] = []byte{}
	w.mu.Unlock()
	if seams {
		d.ev("trunc", full, nil, true)
		d.park()
		w.mu.Lock()
		d.files[name] = append([]byte{}, data[:len(data)/2]...)
		w.mu.Unlock()
		d.ev("chunk", full, data[:len(data)/2], true)
		d.park()
	}
	w.mu.Lock()
	d.files[name] = append([]byte{}, data...)
	w.mu.Unlock()
	d.ev("write", full, data, true)
	return nil
}

func (d *Disk) readFile(name string) ([]byte, error) {
	full := name
	name, _ = splitName(name)
	d.w.mu.Lock()
	fr := d.failRead
	d.w.mu.Unlock()
	if fr != "" {
		errno := map[string]syscall.Errno{"eio": syscall.EIO, "eacces": syscall.EACCES, "emfile": syscall.EMFILE}[fr]
		d.ev("read-fail", full, nil, false)
		d.w.fault("disk:read-"+fr, full)
		return nil, &fs.PathError{Op: "open", Path: name, Err: errno}
	}
	d.w.mu.Lock()
	b, ok := d.files[name]
	d.w.mu.Unlock()
	if !ok {
		d.ev("read", full, nil, false)
		return nil, &fs.PathError{Op: "open", Path: name, Err: fs.ErrNotExist}
	}
	d.ev("read", full, b, true)
	return append([]byte{}, b...), nil
}

func (d *Disk) remove(name string) error {
	name, _ = splitName(name)
	d.w.mu.Lock()
	delete(d.files, name)
	d.w.mu.Unlock()
	d.ev("remove", name, nil, true)
	return nil
}

// actions: release a parked writer by one stage.
func (d *Disk) actions() []Action {
	d.w.mu.Lock()
	n := d.pending
	d.w.mu.Unlock()
	if n == 0 {
		return nil
	}
	return []Action{{ID: "disk|step", W: 10, Do: func() {
		d.w.mu.Lock()
		d.pending--
		d.w.mu.Unlock()
		d.parked <- struct{}{}
	}}}
}
