package sim

import "time"

// C03: per-vBucket delivery is complete, ordered, duplicate-free and faithful.
type scC03 struct{ baseScn }

func init() { scenarios["C03"] = func() Scenario { return &scC03{} } }

func (s *scC03) Configure(w *World) {
	c, t := w.cfg, w.tape
	c.NVb = 2 + t.Draw(7, nil)
	c.NNodes = 1 + t.Draw(3, nil)
	c.MaxItems = 6 + t.Draw(20, nil)
	c.PreItems = t.Draw(5, nil)
	c.ItemKinds = []string{"mut", "del", "exp", "sys:collcreate", "sys:colldelete", "sys:collflush", "sys:scopecreate", "sys:scopedelete", "sys:collchanged"}
	c.ItemKindW = []int{8, 3, 2, 1, 1, 1, 1, 1, 1}
	c.KeyClasses = keyClasses
	c.KeyClassW = []int{6, 1, 2, 2, 2, 1, 1, 1, 2}
	switch t.Draw(3, nil) {
	case 0: // no collection configuration: everything is streamed, every name is _default
		c.Collections = []uint32{0, 8, 9}
	case 1:
		c.ScopeName, c.CollectionNames, c.Collections = "s1", []string{"c1", "c2"}, []uint32{0, 8, 9}
	case 2:
		c.ScopeName, c.CollectionNames, c.Collections = "s1", []string{"c2"}, []uint32{8, 9}
	}
	c.CasMode = "boundary"
	c.SkipUntilSec = 1_800_000_000
	c.SkipUntil = t.Draw(3, nil) != 0
	if t.Draw(2, nil) == 1 {
		c.SkipUntilSec = 1_000 // far in the past: nothing is skipped
	}
	c.ConsumerMode = Pick(t, []string{"immediate", "deferred"}, nil)
	c.CkptInterval = time.Duration(301+200*t.Draw(5, nil)) * time.Millisecond
	w.buildCluster()
	w.cl.collections["s1.c1"] = 8
	w.cl.collections["s1.c2"] = 9
	c.Extra["coll:8"], c.Extra["coll:9"] = "c1", "c2"
}
